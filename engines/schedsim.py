"""C07 — dask-backed data gives the same results under any chunking and scheduler.

One run = one dataset recipe x one operation x one chunking x one simulated schedule:
  ref  = op(in-memory data)                                  (oracle)
  sync = op(chunked data).compute(scheduler="sync")         clause 1 (succeeds) + clause 2 (== ref)
  sim  = op(chunked data).compute(threads, pool=SimPool)    clause 1 + clause 3 (== sync, bit-exact)
"""
import json
import os
import random
import warnings

import numpy as np

from simkit import compare as cmp
from simkit import data as D
from simkit import ops as O
from simkit.baton import SimDeadlock, simulated_compute
from simkit.core import Sim, digest

NAME = "schedsim"
PROPERTY = "C07"

TOL = {  # clause 2 tolerances per (class, dtype)
    ("exact", "float64"): (None, None),
    ("exact", "float32"): (None, None),
    ("sum", "float64"): (1e-9, 1e-300),
    ("sum", "float32"): (2e-4, 1e-30),
    ("cancel", "float64"): (1e-6, 1e-12),
    ("fit", "float64"): (2e-3, 1e-9),
    ("fit", "float32"): (2e-2, 1e-6),
}


# ---------------------------------------------------------------------------------------
def _chunk_choice(rng, n):
    r = rng.random()
    if n == 1 or r < 0.35:
        return -1
    if r < 0.55:
        return 1
    if r < 0.7 and n > 2:
        return 2
    # uneven tuple
    parts, left = [], n
    while left > 0:
        k = rng.randint(1, max(1, left - (0 if parts else 1)))
        parts.append(k)
        left -= k
    if len(parts) == 1:
        return -1
    return parts


def gen_plan(rng, tier="quick"):
    pool = rng.choices(["stats", "partition", "fit", "transform", "all"], [5, 5, 2, 2, 1])[0]
    layouts = [
        [["time", 0]], [["site", 0]], [["time", 0], ["site", 0]], [["site", 0], ["time", 0]],
        [["time", 0], ["lat", 0], ["lon", 0]], [["lat", 0], ["lon", 0]], [],
        [["time", 0], ["site", 0]], [["time", 0]], [["site", 0]], [["time", 0], ["site", 0]],
    ]
    dims = [[k, rng.choice([1, 2, 2, 3, 3, 4])] for k, _ in rng.choice(layouts)]
    while int(np.prod([n for _, n in dims] or [1])) > 24:
        dims[rng.randrange(len(dims))][1] = 1
    nf = rng.randint(3, 14)
    if rng.random() < 0.03:
        nf = rng.choice([1, 2])                        # degenerate frequency axes
    big = tier == "thorough" and rng.random() < 0.3   # deeper bounds in the thorough tier
    if big:
        nf = rng.randint(10, 24)
        dims = [[k, rng.choice([2, 3, 4, 5, 6])] for k, _ in dims]
        while int(np.prod([n for _, n in dims] or [1])) > 48:
            dims[rng.randrange(len(dims))][1] = 2
    nd = rng.choice([0, 2, 3, 4, 5, 6, 8, 8, 9, 12, 12, 16]) if pool in ("stats", "fit", "all") else rng.choice([3, 4, 5, 6, 8, 8, 9, 12, 12, 16])
    if big and nd:
        nd = rng.choice([12, 16, 18, 24, 36])
    recipe = {
        "dims": dims, "nf": nf, "nd": nd,
        "freq": {"kind": rng.choice(["log", "log", "lin", "irr"]), "f0": rng.choice([0.04, 0.05, 0.03]),
                 "r": rng.choice([1.1, 1.15, 1.25, 1.35]), "df": rng.choice([0.01, 0.02, 0.04]), "seed": rng.randrange(1000)},
        "dir": {"dir0": rng.choice([0.0, 0.0, 5.0, 7.5, 11.25]), "order": rng.choice(["asc", "asc", "asc", "desc", "rot", "shuf"]),
                "shift": rng.randint(1, 3), "seed": rng.randrange(1000)},
        "dtype": "float64",
        "data": {"kind": "peaked", "seed": rng.randrange(10**6), "zero_at": -1, "nan_at": -1},
        "spec_last": rng.random() < 0.85,
    }
    if rng.random() < 0.1:
        recipe["dir_first"] = True
    recipe["depth"] = rng.choice(["shelf", "shelf", "deep", "mixed"])
    if rng.random() < 0.15:
        recipe["global_attrs"] = rng.choice(["cf", "acdd", "model"])
    if rng.random() < 0.15:
        recipe["origin_site"] = True
    # storage-level variations of the same contents (coordinate dtypes, labels, attributes)
    if rng.random() < 0.12:
        recipe["dir_dtype"] = rng.choice(["int64", "float32"])
    if rng.random() < 0.08:
        recipe["freq_dtype"] = "float32"
    if rng.random() < 0.1:
        recipe["site_labels"] = "str"
    if rng.random() < 0.3:
        recipe["std_attrs"] = True
    if rng.random() < 0.08:
        recipe["scalar_coord"] = True
    if rng.random() < 0.15:
        recipe["time_irregular"] = True       # gapped / unevenly sampled records
    op = O.gen_op(rng, recipe, pool)
    if op["m"] == "reconstruct" and tier != "thorough":
        op = O.gen_op(rng, recipe, "stats")       # the three-stage pipeline costs 10-60 s per run: thorough tier only
    cls = O.tol_class(op)
    if op["m"] in ("ptm1", "ptm2", "ptm3", "hp01") and rng.random() < (0.12 if tier == "thorough" else 0.06):
        # large spectral grids (>= 1000 bins): code paths that switch on size (thresholded fast paths)
        recipe["nf"] = rng.choice([25, 30, 32, 36, 40])
        recipe["nd"] = rng.choice([36, 36, 48, 72])
        nf, nd = recipe["nf"], recipe["nd"]
        dims[:] = [[k, min(n, 3)] for k, n in dims]
    if op["m"] == "reconstruct":
        # three chained stages per spectrum (watershed, statistics of every partition, parametric shapes): keep it small
        recipe["nf"], recipe["nd"] = min(recipe["nf"], 10), min(recipe["nd"], 12)
        while int(np.prod([n for _, n in dims] or [1])) > 4:
            i = max(range(len(dims)), key=lambda j: dims[j][1])
            dims[i][1] -= 1
    if cls == "exact" or op["m"] in O.PARTITIONS or op["m"] in ("smooth", "reconstruct"):
        recipe["data"]["kind"] = "int_bumps"
        if op["m"] in ("hp01", "ptm1", "ptm2", "ptm3") and rng.random() < (0.7 if op["m"] == "hp01" else 0.3):
            recipe["data"]["kind"] = "int_multi"
            recipe["nf"] = max(recipe["nf"], rng.randint(8, 14))
            recipe["nd"] = max(recipe["nd"], rng.choice([8, 9, 12, 16]))
    elif rng.random() < 0.3:
        recipe["data"]["kind"] = rng.choice(["int_bumps", "random"])
    if op["m"].startswith("fit"):
        recipe["data"]["kind"] = "unimodal"
        if rng.random() < 0.4:
            recipe["data"]["edge_peaks"] = rng.choice([0.2, 0.5])
        if op["m"] == "fit_gaussian" and rng.random() < 0.7:
            op["kw"]["gw0"] = rng.choice([0.01, 0.02, 0.05])
    if op["m"].startswith("fit") and rng.random() < 0.35:
        recipe["nf"] = 3  # steers curve_fit through its warning path (covariance cannot be estimated)
    npos = int(np.prod([n for _, n in dims] or [1]))
    if rng.random() < 0.25 and npos > 1:
        recipe["data"]["zero_at"] = rng.randrange(npos)
    if rng.random() < 0.2 and (cls in ("exact", "sum")):
        recipe["dtype"] = "float32"
    if rng.random() < 0.12 and npos > 1 and not op["m"].startswith("fit"):
        recipe["data"]["nan_at"] = rng.randrange(npos)     # a missing spectrum among the others
    if rng.random() < 0.1 and not op["m"].startswith("fit"):
        recipe["data"]["nan_bins"] = rng.choice([1, 3, 7])   # a few missing bins inside ordinary spectra
    sizes = dict((k, n) for k, n in dims)
    sizes["freq"] = recipe["nf"]
    if nd:
        sizes["dir"] = nd
    chunks = {k: _chunk_choice(rng, n) for k, n in sizes.items()}
    if all(v == -1 for v in chunks.values()) and rng.random() < 0.8:
        k = rng.choice(sorted(sizes))
        chunks[k] = 1
    # schedule effects need >=2 kernel tasks in flight: usually split a leading dimension into blocks
    lead = [k for k, n in dims if n >= 2]
    if lead and all(chunks[k] == -1 for k in lead) and rng.random() < 0.75:
        k = rng.choice(lead)
        chunks[k] = rng.choice([1, 1, 2]) if sizes[k] > 2 else 1
    # bound the graph: rolling-window operations on single-element blocks explode into 10^4 tasks
    heavy = op["m"] in ("smooth", "rotate", "interp", "reconstruct") or op.get("kw", {}).get("smooth")
    limit = 4 if op["m"] == "reconstruct" else (16 if heavy else 48) * (2 if big else 1)

    def nblocks(k):
        v = chunks[k]
        return 1 if v == -1 else (len(v) if isinstance(v, list) else -(-sizes[k] // v))

    while int(np.prod([nblocks(k) for k in chunks])) > limit:
        k = max(sorted(chunks), key=nblocks)
        chunks[k] = -1 if nblocks(k) <= 2 or sizes[k] <= 2 else -(-sizes[k] // 2)
    aux = rng.choice(["same", "same", "numpy", "own"])
    aux_chunks = {k: _chunk_choice(rng, n) for k, n in sizes.items() if k not in ("freq", "dir")} if aux == "own" else None
    # non-index coordinates (lon/lat of sites) may be chunked differently from the spectra, e.g. when a
    # station file is opened with per-variable chunks
    coords = rng.choice(["same", "same", "same", "single", "numpy"]) if any(k == "site" for k, _ in dims) else "same"
    strategy = rng.choices(["rw", "pct", "solo", "lockstep"], [50, 12, 3, 35])[0]
    cfg = {
        "K": rng.choice([1, 2, 2, 2, 2, 3, 3, 4, 4, 8, 16]),
        "chunksize": rng.choice([1, 1, 1, 2, 3]),
        "bgap_mean": rng.choice([1, 2, 5, 20]),
        "optimize_graph": rng.random() < 0.8,
        "strategy": strategy,
        "gap_mean": rng.choice([1, 1, 2, 2, 3, 5, 8, 15, 40]),
        "p_dup": rng.choice([0, 0, 0.05, 0.3]),
        "p_stall": rng.choice([0, 0, 0.03, 0.1]),
        "dup_concurrent": rng.random() < 0.5,
        "rv_funcs": rng.random() < 0.5,
        "warn_mode": rng.choice(["ignore", "ignore", "always"]),
        "proc_opts": rng.choice([None, None, None, {"keep_attrs": True}, {"keep_attrs": False}, {"arithmetic_join": "exact"}]),
        "d": rng.randint(1, 3),
        "expected_points": rng.choice([200, 1000, 5000]),
    }
    if op["m"] == "reconstruct":
        cfg["K"] = min(cfg["K"], 4)
        cfg["gap_mean"] = max(cfg["gap_mean"], 5)
    plan = {"engine": NAME, "recipe": recipe, "op": op, "chunks": chunks, "aux": aux, "aux_chunks": aux_chunks, "coords": coords, "cfg": cfg}
    if rng.random() < (0.12 if tier == "thorough" else 0.05) and recipe["nd"] and not heavy:
        # the dask-backed data is what one of the library's readers returns for a file (chunks= given to the reader, in
        # wavespectra's or the file's own dimension names), the in-memory data what the same reader returns, loaded
        station = sorted(k for k, _ in dims) == ["site", "time"]
        plan["source"] = {"fmt": rng.choice(["ww3", "netcdf"]) if station else "netcdf", "names": rng.choice(["ws", "ws", "native"])}
        # graphs over an opened file carry the readers' own post-processing per block (sorting, unit conversion, renaming):
        # keep them to a handful of blocks
        while int(np.prod([nblocks(k) for k in chunks])) > (6 if tier == "thorough" else 4):
            k = max(sorted(chunks), key=nblocks)
            chunks[k] = -1 if nblocks(k) <= 2 or sizes[k] <= 2 else -(-sizes[k] // 2)
    if rng.random() < (0.35 if op["m"] in O.PARTITIONS or op["m"].startswith("fit") else 0.15) and op["m"] not in ("sel", "interp", "reconstruct"):
        if cfg["strategy"] in ("solo", "pct") and rng.random() < 0.7:
            cfg["strategy"] = rng.choice(["rw", "lockstep"])
        cfg["K"] = max(cfg["K"], rng.choice([2, 4, 4, 8]))     # tasks of both graphs must be in flight together
        cfg["gap_mean"] = min(cfg["gap_mean"], rng.choice([1, 2, 3, 5]))
        if cfg["strategy"] == "lockstep" and rng.random() < 0.8:
            cfg["rv_funcs"] = True
        # a second dataset on another spectral grid goes through the same operation in the same compute
        # (dask.compute(a, b)): tasks of the two graphs interleave on the same workers
        r2 = json.loads(json.dumps(recipe))
        r2["nf"] = max(3, recipe["nf"] + rng.choice([-2, -1, 1, 2, 3]))
        if recipe["nd"]:
            r2["nd"] = rng.choice([n for n in (3, 4, 5, 6, 8, 9, 12, 16) if n != recipe["nd"]])
        r2["data"]["seed"] = rng.randrange(10**6)
        if rng.random() < 0.5:
            r2["nf"], r2["nd"] = recipe["nf"], recipe["nd"]     # same grid, other contents
            if rng.random() < 0.6:
                # same number of bins, other bin values (another model's frequencies / rotated directions)
                fq = dict(r2.get("freq", {}))
                fq["f0"] = round(float(fq.get("f0", 0.04)) * rng.choice([0.6, 0.8, 1.25, 1.6]), 4)
                r2["freq"] = fq
        if rng.random() < 0.7:
            r2["aux_seed"] = recipe.get("data", {}).get("seed", 0)   # same sites: same winds, depths, positions
        plan["pair"] = r2
        if rng.random() < 0.35:
            # ... or the same method with other options (on the same data): two lazy results of one method that differ only
            # in their arguments exist side by side before either is computed
            for _ in range(12):
                op2 = O.gen_op(rng, recipe, "all")
                if op2["m"] == op["m"] and json.dumps(op2, sort_keys=True) != json.dumps(op, sort_keys=True):
                    plan["pair_op"] = op2
                    if rng.random() < 0.6:
                        plan["pair"] = json.loads(json.dumps(recipe))      # the very same dataset
                    break
    return plan


def shape(plan):
    ck = ",".join(f"{k}:{'w' if v == -1 else (v if isinstance(v, int) else 'u')}" for k, v in sorted(plan["chunks"].items()))
    c = plan["cfg"]
    return f"{D.describe(plan['recipe'])}|{O.op_label(plan['op'])}|{ck}|aux={plan['aux']}|co={plan.get('coords', 'same')}{'|src:' + plan['source']['fmt'] + plan['source']['names'] if plan.get('source') else ''}{'|pair:' + D.describe(plan['pair']) + ('+' + O.op_label(plan['pair_op']) if plan.get('pair_op') else '') if plan.get('pair') else ''}|K{c['K']}cs{c['chunksize']}{c['strategy']}"


# ---------------------------------------------------------------------------------------
def _norm_chunks(ch, sizes):
    out = {}
    for k, v in ch.items():
        if k not in sizes:
            continue
        if isinstance(v, list):
            v = tuple(int(x) for x in v)
            if sum(v) != sizes[k]:
                v = -1
        elif v != -1:
            v = min(int(v), sizes[k])
        out[k] = v
    return out


def chunked_dims(plan):
    return sorted(k for k, v in plan["chunks"].items() if v != -1)


def apply_chunks(ds, plan, opener=None):
    sizes = dict(ds["efth"].sizes)
    dsc = opener(_norm_chunks(plan["chunks"], sizes)) if opener else ds.chunk(_norm_chunks(plan["chunks"], sizes))
    aux = plan.get("aux", "same")
    for v in ("wspd", "wdir", "dpt"):
        if v not in ds:
            continue
        if aux == "numpy":
            dsc[v] = ds[v]
        elif aux == "own":
            dsc[v] = ds[v].chunk(_norm_chunks(plan["aux_chunks"] or {}, dict(ds[v].sizes)))
    cmode = plan.get("coords", "same")
    if cmode != "same":
        for c in ("lon", "lat"):
            if c in ds.coords and c not in ds.dims:
                dsc = dsc.assign_coords({c: ds[c].chunk(-1) if cmode == "single" else ds[c]})
    return dsc


WW3_NATIVE = {"site": "station", "freq": "frequency", "dir": "direction"}


def file_source(ds, src, root):
    """(in-memory dataset, opener): the library writes ds to a file; the in-memory side is what the matching reader
    returns, loaded; opener(chunks) is the same reader called with chunks= (dask-backed straight from the file)."""
    import wavespectra as ws

    os.makedirs(root, exist_ok=True)
    path = os.path.join(root, f"c07src_{src['fmt']}.nc")
    if src["fmt"] == "ww3":
        ds.spec.to_ww3(path)
        reader = ws.read_ww3
    else:
        ds.spec.to_netcdf(path, ncformat="NETCDF3_64BIT", compress=False, packed=False)
        reader = ws.read_netcdf
    extra = {}

    def finish(d):
        for v, (dims_, vals) in extra.items():
            d[v] = (dims_, vals)
        return d

    mem = reader(path).load()
    for v in ("wspd", "wdir", "dpt"):
        if v not in mem and v in ds and set(ds[v].dims) <= set(mem.dims):
            extra[v] = (ds[v].dims, ds[v].values)
    mem = finish(mem)

    def opener(chunks):
        ch = {k: (v if v != -1 else -1) for k, v in chunks.items()}
        if src.get("names") == "native" and src["fmt"] == "ww3":
            ch = {WW3_NATIVE.get(k, k): v for k, v in ch.items()}
        return finish(reader(path, chunks=ch))

    return mem, opener


def _token_seam():
    """xarray names the dask arrays of an opened file after (absolute path, mtime): both differ between a run and its
    replay (scratch directories carry the pid).  The path is scrubbed and the mtime pinned, so graph keys - which dask's
    ordering breaks ties on - are a function of the plan alone."""
    import re

    import dask.base
    import xarray.backends.api as xapi

    if getattr(dask.base.tokenize, "_verif", False):
        return
    orig = dask.base.tokenize
    pat = re.compile(r"/dev/shm/wsverif-[^/]*/r\d+")

    def scrub(x):
        return pat.sub("<scratch>", x) if isinstance(x, str) else x

    def tokenize(*a, **k):
        return orig(*[scrub(x) for x in a], **{kk: scrub(v) for kk, v in k.items()})

    tokenize._verif = True
    dask.base.tokenize = tokenize
    xapi._get_mtime = lambda f: 0


class _DetUUID:
    def __init__(self):
        self.n = 0

    def __call__(self):
        import uuid

        self.n += 1
        return uuid.UUID(int=(0x5EED << 96) | self.n)


def install_seams(run_seed, warn_mode="ignore"):
    import uuid

    import dask

    dask.config.set(scheduler="sync")
    uuid.uuid4 = _DetUUID()
    _token_seam()
    np.random.seed(run_seed % (2**32))
    if warn_mode == "always":
        # the process lets warnings through (pytest, logging.captureWarnings, -W always ...): every warning then
        # runs Python code at the place it is issued - also when that place is inside native code
        from simkit.baton import showwarning_seam

        warnings.simplefilter("always")
        warnings.showwarning = showwarning_seam
    else:
        warnings.simplefilter("ignore")
    import logging

    logging.disable(logging.INFO)
    from simkit.clock import pin_clock

    pin_clock()
    import gc

    # the cyclic garbage collector runs finalizers at allocation-count dependent moments (which differ between
    # a lane's child and a replay child): one more source of nondeterminism behind a seam.  Reference counting
    # still frees everything acyclic at once; engines that care decide explicitly when leftovers are finalized.
    gc.collect()
    gc.disable()


def _process_options(opts):
    """Process-wide settings a user may legitimately have changed before calling the library (a configuration
    dimension: the in-memory, synchronous and threaded results are all produced under the same settings)."""
    if not opts:
        return
    import xarray as xr

    if opts.get("keep_attrs") is not None:
        xr.set_options(keep_attrs=opts["keep_attrs"])
    # (numpy's error state is not one of them: under np.seterr(all="raise") xarray's eager path and dask's task path
    # already differ for 0/0 in code that is not the library's - tried, not a statement about wavespectra, dropped)
    if opts.get("arithmetic_join"):
        xr.set_options(arithmetic_join=opts["arithmetic_join"])


def _arrays(c, out, path=""):
    k = c.get("kind")
    if k == "DataArray":
        out[path + "/" + str(c["name"])] = c["var"]["values"]
    elif k == "Dataset":
        for n, v in c["vars"].items():
            out[path + "/" + n] = v["values"]
    elif k == "seq":
        for i, x in enumerate(c["items"]):
            _arrays(x, out, f"{path}[{i}]")
    elif k == "dict":
        for n, x in c["items"].items():
            _arrays(x, out, f"{path}.{n}")
    elif k == "ndarray":
        out[path] = c["values"]
    return out


def _only_domain_edge_nans(a_c, b_c, rtol, atol):
    """True when two results of a 'cancel'-class statistic (square root of a difference of nearly equal moments) differ
    only like this: one side is NaN where the other is within rounding noise of zero (|x| <= 1e-6), i.e. the argument of
    the square root sat at 0 +- a few ulps.  Which side of zero it falls is decided by the summation order and is not a
    statement about the library (a single-frequency spectrum has spectral width 0 exactly: the in-memory evaluation gives
    0.0 structurally, three separately reduced moments give sqrt(-1e-16))."""
    A, B = _arrays(a_c, {}), _arrays(b_c, {})
    if sorted(A) != sorted(B):
        return False
    seen = False
    for n in A:
        a, b = np.asarray(A[n]), np.asarray(B[n])
        if a.shape != b.shape or a.dtype.kind != "f" or b.dtype.kind != "f":
            if a.shape != b.shape or not np.array_equal(a, b):
                return False
            continue
        na, nb = np.isnan(a), np.isnan(b)
        diff = na != nb
        if diff.any():
            other = np.where(na, b, a)[diff]
            if not (np.abs(other) <= 1e-6).all():
                return False
            seen = True
        both = ~na & ~nb
        if both.any() and not np.allclose(a[both], b[both], rtol=rtol or 0.0, atol=max(atol or 0.0, 1e-6 if seen else 0.0)):
            return False
    return seen


def _filters_digest():
    return digest([repr(f) for f in warnings.filters])


def _tols(cls, dtype):
    return TOL.get((cls, dtype)) or TOL.get((cls, "float64"))


def _perturbed(ds, seed):
    """1-ulp relative perturbation of the spectra: measures conditioning of the in-memory result."""
    rng = np.random.default_rng(seed)
    dsp = ds.copy(deep=True)
    a = dsp["efth"].values
    eps = np.finfo(a.dtype).eps
    dsp["efth"].values[...] = a * (1 + eps * rng.choice([-1.0, 0.0, 1.0], a.shape)).astype(a.dtype)
    return dsp


def _variants(ds, n):
    """Inputs that are the same data to within what the property tolerates: n 1-ulp perturbations of the values, then the
    same values in the two other memory layouts (C-ordered copy, F-ordered copy).  If the *in-memory* answer already
    moves beyond the tolerance across these, a dask-vs-memory difference of that size says nothing about chunking or
    scheduling (dask blocks are fresh C-ordered arrays; numpy reduces in memory order) - layout independence is C05."""
    for k in range(n):
        yield _perturbed(ds, k + 1)
    a = ds["efth"].values
    for order in ("C", "F"):
        if (order == "C" and a.flags["C_CONTIGUOUS"]) or (order == "F" and a.flags["F_CONTIGUOUS"]) or a.ndim < 2:
            continue
        dsl = ds.copy(deep=True)
        dsl["efth"] = ds["efth"].copy(data=np.array(a, order=order))
        yield dsl


def execute(arg):
    from simkit import build

    plan = arg["plan"]
    sim = Sim(arg["run_seed"], tape=arg.get("tape"), strict=arg.get("strict", False))
    if arg.get("plan_retries"):
        sim.count("plan_generation_retries", arg["plan_retries"])
    install_seams(arg["run_seed"], plan["cfg"].get("warn_mode", "ignore"))
    _process_options(plan["cfg"].get("proc_opts"))
    repo = build.repo_root()
    recipe, op, cfg = plan["recipe"], plan["op"], plan["cfg"]
    label = O.op_label(op)
    viol = []
    out = {"outcome": "ok", "violations": viol, "shape": digest(shape(plan))}

    def finish():
        if sim.diverged:
            sim.stats["tape_diverged"] = sim.diverged
        out["stats"] = sim.stats
        out["tape_digest"] = digest(sim.tape)
        out["log_digest"] = sim.log_digest()
        out["nontrivial"] = bool(
            (sim.stats.get("max_tasks_in_flight", 0) >= 2 and sim.stats.get("preempt_inside_task", 0) >= 1)
            or any(k.startswith("fault.") and k not in ("fault.reorder_window",) and v for k, v in sim.stats.items())
        )
        if viol:
            out["outcome"] = "violation"
        if arg.get("want_tape") or viol:
            out["tape"] = sim.tape
            out["plan"] = plan
        if arg.get("want_log"):
            out["log"] = [list(map(str, e)) for e in (sim.log if os.environ.get("VERIF_FULL_LOG") else sim.log[-400:])]
        return out

    def add(clause, cause, cls, detail):
        viol.append({
            "property": PROPERTY,
            "signature": f"C07/{clause}/{op['m']}/{cause}/{cls}",
            "detail": f"{label} on {D.describe(recipe)} chunks={plan['chunks']} aux={plan['aux']}: {detail}"[:900],
        })

    from simkit.probe import global_state

    g0 = global_state()          # before the library has been called at all in this child
    ds = D.make_dataset(recipe)
    opener = None
    if plan.get("source"):
        from simkit import lanes

        try:
            ds, opener = file_source(ds, plan["source"], os.path.join(lanes.scratch_root(), "c07src"))
            sim.count("source_file." + plan["source"]["fmt"])
        except Exception as exc:   # layout the format cannot hold (not this property's subject): constructed dataset instead
            sim.count("source_skipped")
            sim.event("source-skipped", type(exc).__name__)
            opener = None
    cls = O.tol_class(op)
    rtol, atol = _tols(cls, str(ds["efth"].dtype) if opener else recipe.get("dtype", "float64"))
    # ---- oracle: in memory --------------------------------------------------------------
    try:
        ref = O.apply_op(ds, op)
        ref_c = cmp.canon(ref)
    except Exception as exc:  # the op does not apply to this input: nothing to compare against
        sim.count("ref_raised")
        sim.event("ref-raised", type(exc).__name__)
        out["ref_error"] = f"{type(exc).__name__}: {exc}"[:300]
        return finish()
    cdims = "+".join(chunked_dims(plan)) or "none"
    cause = f"chunked:{cdims}" + ("" if plan["aux"] == "same" else f";aux:{plan['aux']}") + ("" if plan.get("coords", "same") == "same" else f";coords:{plan['coords']}")
    if opener:
        cause += f";reader:{plan['source']['fmt']}"
    # ---- clause 1: building the lazy result ------------------------------------------------
    try:
        dsc = apply_chunks(ds, plan, opener)
        lazy = O.apply_op(dsc, op)
    except Exception as exc:
        add("build", cause, type(exc).__name__, f"in-memory call succeeds but the call on chunked data raises {type(exc).__name__}: {exc}")
        return finish()
    # ---- clause 1+2: synchronous scheduler -----------------------------------------------
    try:
        sync_c = cmp.canon(lazy)
    except Exception as exc:
        add("sync", cause, type(exc).__name__, f"compute(scheduler='sync') raises {type(exc).__name__}: {exc}")
        return finish()
    d = cmp.compare(ref_c, sync_c, rtol=rtol, atol=atol)
    if d and cls == "cancel" and d[0] == "nan-position" and _only_domain_edge_nans(ref_c, sync_c, rtol, atol):
        sim.count("ill_conditioned_skipped")
        sim.count("domain_edge_nan_skipped")
        d = None
    if d and cls != "exact" and d[0] in ("value", "nan-position"):
        # conditioning guard: does a 1-ulp perturbation of the input move the in-memory answer as much?
        try:
            for dsv in _variants(ds, 6 if cls == "fit" else 2):
                refp_c = cmp.canon(O.apply_op(dsv, op))
                if cmp.compare(ref_c, refp_c, rtol=rtol, atol=atol):
                    sim.count("ill_conditioned_skipped")
                    d = None
                    break
        except Exception:
            pass
    if d:
        add("sync", cause, d[0], f"chunked result (sync scheduler) differs from in-memory result: {d[1]}")
        return finish()
    sim.count("sync_ok")
    # ---- clause 3: simulated threaded scheduler ------------------------------------------
    f0 = _filters_digest()
    pair_sync = None
    if plan.get("pair"):
        try:
            ds_b = D.make_dataset(plan["pair"])
            pplan = dict(plan, chunks={k: v for k, v in plan["chunks"].items() if not isinstance(v, list)})
            dsc_b = apply_chunks(ds_b, pplan)
            import dask

            op_b = plan.get("pair_op") or op
            la, lb = O.apply_op(dsc, op), O.apply_op(dsc_b, op_b)
            fa = list(la) if isinstance(la, tuple) else [la]
            fb = list(lb) if isinstance(lb, tuple) else [lb]
            # reference for the pair: the same joint compute on the synchronous scheduler (dask itself cannot merge
            # some pairs of xarray graphs - 'Missing dependency' - whatever the scheduler; such pairs are skipped)
            joint = dask.compute(*(fa + fb), scheduler="sync")
            rb = joint[len(fa):]
            pair_sync = cmp.canon(tuple(rb) if isinstance(lb, tuple) else rb[0])
            sync_a = cmp.canon(tuple(joint[: len(fa)]) if isinstance(la, tuple) else joint[0])
            pair_refs = (("first", sync_a, ds, ref_c), ("second", pair_sync, ds_b, cmp.canon(O.apply_op(ds_b, op_b))))
        except Exception:
            pair_sync = None      # single-dataset run
            sim.count("pair_skipped")
    if pair_sync is not None:
        # two lazy results that exist at the same time are each still the in-memory answer of their own dataset
        for which, got, base, want in pair_refs:
            # each result is judged by the tolerance class of *its own* operation and the precision of *its own* data (the
            # second lazy result may come from the same method with other options, e.g. ptm5 with interpolation)
            cls_w = cls if which == "first" else O.tol_class(plan.get("pair_op") or op)
            rtol_w, atol_w = (rtol, atol) if which == "first" else _tols(cls_w, plan["pair"].get("dtype", "float64"))
            dj = cmp.compare(want, got, rtol=rtol_w, atol=atol_w)
            if dj and cls_w == "cancel" and dj[0] == "nan-position" and _only_domain_edge_nans(want, got, rtol_w, atol_w):
                sim.count("ill_conditioned_skipped")
                dj = None
            if dj and cls_w != "exact" and dj[0] in ("value", "nan-position"):
                try:
                    for dsv in _variants(base, 6 if cls_w == "fit" else 2):
                        if cmp.compare(want, cmp.canon(O.apply_op(dsv, op if which == "first" else (plan.get("pair_op") or op))), rtol=rtol_w, atol=atol_w):
                            sim.count("ill_conditioned_skipped")
                            dj = None
                            break
                except Exception:
                    pass
            if dj:
                add("sync", cause + ";pair", dj[0], f"two lazy results built before either is computed ({D.describe(plan['pair'])} alongside): the {which} one, computed with the sync scheduler, differs from its in-memory result: {dj[1]}")
                return finish()
        sim.count("pair_sync_ok")
    try:
        lazy2 = O.apply_op(dsc, op)  # fresh graph, same keys (deterministic tokens)
        if pair_sync is not None:
            import dask

            lazy_b = O.apply_op(dsc_b, op_b)
            flat_a = list(lazy2) if isinstance(lazy2, tuple) else [lazy2]
            flat_b = list(lazy_b) if isinstance(lazy_b, tuple) else [lazy_b]

            class _Pair:
                def compute(self, **kw):
                    return dask.compute(*(flat_a + flat_b), **kw)

            both = simulated_compute(_Pair(), sim, cfg, repo, {"chunksize": cfg["chunksize"], "optimize_graph": cfg["optimize_graph"]})
            sim.count("pair_computes")
            ra, rb = both[: len(flat_a)], both[len(flat_a):]
            simres = tuple(ra) if isinstance(lazy2, tuple) else ra[0]
            simres_b = tuple(rb) if isinstance(lazy_b, tuple) else rb[0]
            db = cmp.compare(pair_sync, cmp.canon(simres_b), rtol=None)
            if db:
                add("sched", f"preempt@{_preempt_files(sim)};pair", db[0], f"second dataset ({D.describe(plan['pair'])}) computed in the same dask.compute under the simulated threaded schedule differs from its synchronous result: {db[1]}")
        elif hasattr(lazy2, "compute"):
            simres = simulated_compute(lazy2, sim, cfg, repo, {"chunksize": cfg["chunksize"], "optimize_graph": cfg["optimize_graph"]})
        elif isinstance(lazy2, tuple):
            import dask

            class _Bag:
                def __init__(self, items):
                    self.items = items

                def compute(self, **kw):
                    return dask.compute(*self.items, **kw)

            simres = simulated_compute(_Bag(lazy2), sim, cfg, repo, {"chunksize": cfg["chunksize"], "optimize_graph": cfg["optimize_graph"]})
        else:
            simres = lazy2
        sim_c = cmp.canon(simres)
    except SimDeadlock as exc:
        add("sched", f"K={cfg['K']}", "deadlock", str(exc))
        return finish()
    except Exception as exc:
        files = _preempt_files(sim)
        add("sched", f"preempt@{files}", type(exc).__name__, f"compute under simulated threaded schedule (K={cfg['K']}, {cfg['strategy']}) raises {type(exc).__name__}: {exc}")
        return finish()
    if _filters_digest() != f0:
        sim.count("warnings_filters_changed")
    if not viol and global_state() != g0 and cfg["strategy"] != "solo":
        # greybox: tasks changed module-level state of the library.  Not a violation in itself, but shared mutable
        # state plus concurrency is where schedule dependence comes from: intensify - the same operation on a second
        # dataset with another spectral grid in the same compute, many workers, lockstep with function rendezvous
        sim.count("module_state_changed_by_tasks")
        _intensify(plan, op, dsc, sync_c, sim, repo, add)
    d = cmp.compare(sync_c, sim_c, rtol=None)
    if d:
        files = _preempt_files(sim)
        add("sched", f"preempt@{files}", d[0], f"result under simulated threaded schedule (K={cfg['K']}, {cfg['strategy']}) differs from the synchronous scheduler on the same graph: {d[1]}")
    return finish()


def _intensify(plan, op, dsc, sync_c, sim, repo, add, rounds=12):
    import dask

    recipe = plan["recipe"]
    r2 = json.loads(json.dumps(recipe))
    r2["nf"] = max(3, recipe["nf"] + 2)
    r2["nd"] = {0: 0}.get(recipe["nd"], [n for n in (4, 6, 8, 9, 12, 16) if n != recipe["nd"]][recipe["nf"] % 5])
    r2["data"]["seed"] = recipe["data"].get("seed", 0) + 1
    try:
        ds_b = D.make_dataset(r2)
        dsc_b = apply_chunks(ds_b, dict(plan, chunks={k: v for k, v in plan["chunks"].items() if not isinstance(v, list)}))
        la, lb = O.apply_op(dsc, op), O.apply_op(dsc_b, op)
        fa = list(la) if isinstance(la, tuple) else [la]
        fb = list(lb) if isinstance(lb, tuple) else [lb]
        joint = dask.compute(*(fa + fb), scheduler="sync")
        ref = [cmp.canon(x) for x in joint]
    except Exception:
        sim.count("intensify_skipped")
        return
    cfg = dict(plan["cfg"], K=8, strategy="lockstep", rv_funcs=True, gap_mean=1, p_dup=0, p_stall=0)
    budget = sim.stats.get("decisions", 0) + 60000      # deterministic bound on the extra effort (no clock involved)
    for k in range(rounds):
        if sim.stats.get("decisions", 0) > budget:
            sim.count("intensify_cut_short")
            break
        sim.count("intensify_rounds")
        la, lb = O.apply_op(dsc, op), O.apply_op(dsc_b, op)
        fa = list(la) if isinstance(la, tuple) else [la]
        fb = list(lb) if isinstance(lb, tuple) else [lb]

        class _Pair:
            def compute(self, **kw):
                return dask.compute(*(fa + fb), **kw)

        try:
            got = simulated_compute(_Pair(), sim, cfg, repo, {"chunksize": 1, "optimize_graph": True})
        except Exception as exc:
            add("sched", f"preempt@{_preempt_files(sim)};pair;intensified", type(exc).__name__,
                f"with a second dataset ({D.describe(r2)}) in the same compute (K=8, lockstep) the compute raises {type(exc).__name__}: {exc}")
            return
        for i, (r, g) in enumerate(zip(ref, got)):
            d = cmp.compare(r, cmp.canon(g), rtol=None)
            if d:
                add("sched", f"preempt@{_preempt_files(sim)};pair;intensified", d[0],
                    f"with a second dataset ({D.describe(r2)}) in the same compute (K=8, lockstep) result {i} differs from the synchronous scheduler: {d[1]}")
                return


def _preempt_files(sim):
    files = set()
    for e in sim.log:
        if e[0] == "switch" and str(e[3]).startswith("line:"):
            files.add(str(e[3]).split(":")[1])
        elif e[0] == "switch" and str(e[3]).startswith("c:"):
            files.add("specpart.c")
        elif e[0] == "dup":
            files.add("duplicate")
    return "+".join(sorted(files)) or "task-boundaries"


# ---------------------------------------------------------------------------------------
def simplify(plan):
    """Candidate simpler plans, most aggressive first (used by the minimiser)."""
    import copy

    out = []

    def variant(f):
        p = copy.deepcopy(plan)
        try:
            if f(p) is not False and p != plan:
                out.append(p)
        except Exception:
            pass

    r = plan["recipe"]
    for i in range(len(r["dims"])):
        def drop(p, i=i):
            k = p["recipe"]["dims"][i][0]
            del p["recipe"]["dims"][i]
            p["chunks"].pop(k, None)
            if p.get("aux_chunks"):
                p["aux_chunks"].pop(k, None)
            p["recipe"]["data"]["zero_at"] = -1
        variant(drop)

        def shrink(p, i=i):
            if p["recipe"]["dims"][i][1] <= 1:
                return False
            p["recipe"]["dims"][i][1] = max(1, p["recipe"]["dims"][i][1] // 2)
            k = p["recipe"]["dims"][i][0]
            if isinstance(p["chunks"].get(k), list):
                p["chunks"][k] = 1
            if p.get("aux_chunks") and isinstance(p["aux_chunks"].get(k), list):
                p["aux_chunks"][k] = 1
            p["recipe"]["data"]["zero_at"] = min(p["recipe"]["data"].get("zero_at", -1), -1)
        variant(shrink)
    for k in list(plan["chunks"]):
        if plan["chunks"][k] != -1:
            variant(lambda p, k=k: p["chunks"].__setitem__(k, -1))
        if isinstance(plan["chunks"][k], list):
            variant(lambda p, k=k: p["chunks"].__setitem__(k, 1))
    if plan["aux"] != "same":
        variant(lambda p: p.update(aux="same", aux_chunks=None))
    if plan.get("coords", "same") != "same":
        variant(lambda p: p.update(coords="same"))
    if plan.get("pair"):
        variant(lambda p: (p.pop("pair"), p.pop("pair_op", None)))
    if plan.get("source"):
        variant(lambda p: p.pop("source"))
        if plan["source"].get("names") != "ws":
            variant(lambda p: p["source"].update(names="ws"))
    for key, val in (("nf", 3), ("nf", 5), ("nd", 4), ("nd", 8)):
        if r.get(key, 0) > val:
            def setk(p, key=key, val=val):
                p["recipe"][key] = val
                dim = "freq" if key == "nf" else "dir"
                if isinstance(p["chunks"].get(dim), list):
                    p["chunks"][dim] = 1
            variant(setk)
    variant(lambda p: p["recipe"].update(spec_last=True))
    variant(lambda p: p["recipe"].pop("dir_first", None))
    variant(lambda p: p["recipe"]["dir"].update(order="asc", dir0=0.0))
    variant(lambda p: p["recipe"]["freq"].update(kind="log", f0=0.04, r=1.1))
    variant(lambda p: p["recipe"]["data"].update(zero_at=-1))
    variant(lambda p: p["op"].update(via="da"))
    if plan["op"].get("kw"):
        for k in list(plan["op"]["kw"]):
            variant(lambda p, k=k: p["op"]["kw"].pop(k))
    if plan["op"]["m"] == "stats" and len(plan["op"]["stats"]) > 1:
        for i in range(len(plan["op"]["stats"])):
            variant(lambda p, i=i: p["op"]["stats"].pop(i))
    c = plan["cfg"]
    if c["K"] > 2:
        variant(lambda p: p["cfg"].update(K=2))
    if c["p_dup"]:
        variant(lambda p: p["cfg"].update(p_dup=0))
    if c["p_stall"]:
        variant(lambda p: p["cfg"].update(p_stall=0))
    if c["chunksize"] != 1:
        variant(lambda p: p["cfg"].update(chunksize=1))
    if c["strategy"] != "solo":
        variant(lambda p: p["cfg"].update(strategy="solo"))
    if not c["optimize_graph"]:
        variant(lambda p: p["cfg"].update(optimize_graph=True))
    return out


def sample(plan):
    return {"dataset": D.describe(plan["recipe"]), "op": O.op_label(plan["op"]), "chunks": plan["chunks"], "aux": plan["aux"], "coords": plan.get("coords", "same"), "cfg": plan["cfg"]}


NONTRIVIAL_RULE = (
    "a run is one (dataset recipe, operation, chunking, worker count/batching, seeded schedule); it is non-trivial when "
    ">=2 tasks were in flight at once and >=1 pre-emption happened inside a running task, or >=1 injected fault "
    "(duplicate execution, stall, pre-emption in C) fired; distinct = distinct (plan-shape digest, schedule-tape digest) pairs"
)

COMPONENTS = {
    "real": ["wavespectra (Python from the working tree, C extension rebuilt from the working tree)", "xarray", "numpy", "scipy",
             "dask graph construction / optimisation / dask.order / dask.local.get_async scheduler loop / execute_task"],
    "simulated": ["thread pool (SimPool via dask's pool= seam): one parked real thread per batch, baton decides who runs",
                  "completion queue (dask.local.Queue -> SimQueue)", "pre-emption points: sys.monitoring LINE events in wavespectra code, C yield hook when the GIL is released",
                  "uuid4 (counter based)", "numpy global RNG seed"],
    "stubs": [],
}
ASSUMPTIONS = [
    "PYTHONHASHSEED pinned to 0 (dask's submission order for large graphs depends on it); every run executes in a child forked from a zygote that only imported the libraries",
    "interleaving is controlled at Python-line granularity inside wavespectra files and at the yield points of specpart.c (only when the calling thread has released the GIL); numpy/scipy/xarray internals run atomically under the baton",
    "clause 2 tolerances: bit-exact for partitions/splits/to_energy; rtol 1e-9 (float64) for reductions that cross chunks; 1e-6 for cancellation-prone widths; 2e-3 for fits; a tolerance-class mismatch is discarded when a 1-ulp perturbation of the input moves the in-memory answer as much (conditioning guard)",
]
# module_state_changed_by_tasks / intensify_rounds stay 0 on a tree whose tasks do not touch module-level state
PROBES = ["sync_ok", "pair_computes", "py_callbacks_in_task", "max_tasks_in_flight", "preempt_inside_task", "fault.duplicate", "fault.duplicate_concurrent", "fault.stall", "fault.preempt_py", "c_sites_gil_held", "rendezvous_met"]
