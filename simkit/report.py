"""Check driver shared by the engines: sweep, known findings, minimisation, replay, evidence."""
import argparse
import json
import os
import random
import re
import subprocess
import sys
import time

from . import build, lanes
from .core import derive_seed, digest

VERIF = os.path.dirname(os.path.dirname(os.path.abspath(__file__)))
KNOWN = os.path.join(VERIF, "known_findings.json")
MAX_MINIMISE = 6


# ---------------------------------------------------------------------------------------
def reexec_pinned():
    """Re-exec with the environment every run is a pure function of."""
    want = {"PYTHONHASHSEED": os.environ.get("VERIF_HASHSEED", "0"), "OMP_NUM_THREADS": "1",
            "OPENBLAS_NUM_THREADS": "1", "MKL_NUM_THREADS": "1", "PYTHONWARNINGS": "ignore",
            "PYTHONDONTWRITEBYTECODE": "1", "WAVESPECTRA_VERIF": "1"}
    if all(os.environ.get(k) == v for k, v in want.items()):
        return
    env = dict(os.environ)
    env.update(want)
    os.execve(sys.executable, [sys.executable] + sys.argv, env)


def warm_zygote():
    """Import everything once; never call into wavespectra."""
    build.preload()
    import dask.array  # noqa
    import pandas  # noqa
    import scipy.optimize  # noqa
    import scipy.interpolate  # noqa
    import xarray  # noqa
    import linecache

    repo = build.repo_root()
    for root, _, files in os.walk(os.path.join(repo, "wavespectra")):
        for n in files:
            if n.endswith(".py"):
                linecache.getlines(os.path.join(root, n))


def load_known(prop):
    if not os.path.exists(KNOWN):
        return []
    with open(KNOWN) as f:
        return [k for k in json.load(f) if k.get("property") == prop]


def known_match(sig, known):
    for k in known:
        if k.get("status") != "open":
            continue
        if k.get("signature") == sig:
            return k
        rx = k.get("signature_regex")
        if rx and re.fullmatch(rx, sig):
            return k
    return None


def sig_key(sig):
    parts = sig.split("/")
    return "/".join(parts[:3] + parts[4:])


# ---------------------------------------------------------------------------------------
class Driver:
    def __init__(self, engine, prop, tier, seed):
        self.engine = engine
        self.prop = prop
        self.tier = tier
        self.seed = seed
        self.known = load_known(prop)
        self.repo_digest = build.repo_digest()

    # one execution in a fresh fork of the zygote
    def run(self, plan, run_seed, tape=None, strict=False, want_tape=True, want_log=False):
        arg = {"plan": plan, "run_seed": run_seed, "tape": tape, "strict": strict,
               "want_tape": want_tape, "want_log": want_log, "prop": self.prop}
        return lanes.run_in_child(self.engine.execute, arg)

    def run_many(self, jobs):
        """jobs: list of (plan, run_seed, tape) -> list of results (parallel, each in its own fork)."""
        def make_arg(i):
            plan, run_seed, tape = jobs[i]
            return {"plan": plan, "run_seed": run_seed, "tape": tape, "strict": False,
                    "want_tape": True, "prop": self.prop}

        res = lanes.sweep(self.engine.execute, make_arg, range(len(jobs)))
        return [res.get(i, {"outcome": "harness", "error": "lost"}) for i in range(len(jobs))]

    @staticmethod
    def _sigs(res, prop):
        return [v["signature"] for v in res.get("violations", []) if v.get("property") == prop]

    def _has(self, res, key):
        return any(sig_key(s) == key for s in self._sigs(res, self.prop))

    # ---------------------------------------------------------------------------------
    def minimise(self, plan, run_seed, signature, log=print):
        key = sig_key(signature)
        sched_like = "/sched/" in signature or getattr(self.engine, "SCHEDULE_DEPENDENT", False)
        # 0. confirm
        base = self.run(plan, run_seed)
        if not self._has(base, key):
            base = self.run(plan, run_seed)
        if not self._has(base, key):
            return None, f"UNCONFIRMED violation {signature} did not reproduce from (plan, seed) in two fresh children: {base.get('outcome')} {base.get('error', '')}"
        rounds = 0
        deadline = time.monotonic() + float(os.environ.get("VERIF_MIN_BUDGET", "240"))
        # 1. plan simplification (greedy, parallel candidates)
        while rounds < 40 and time.monotonic() < deadline:
            rounds += 1
            cands = self.engine.simplify(plan)
            if not cands:
                break
            seeds = [run_seed, run_seed + 1, run_seed + 2, run_seed + 3] if sched_like else [run_seed]
            jobs = [(c, s, None) for c in cands for s in seeds]
            results = self.run_many(jobs)
            hit = None
            for (c, s, _), r in zip(jobs, results):
                if self._has(r, key):
                    hit = (c, s, r)
                    break
            if hit is None:
                break
            plan, run_seed, base = hit
        tape = base.get("tape") or []
        # 2. tape shrinking (schedule decisions -> neutral), only useful for schedule-dependent failures
        if sched_like and tape:
            def neutral(e):
                why, n, v = e
                return [why, n, (n - 1) if why in ("gap", "bgap") else 0]

            # truncate tail
            lo, hi = 0, len(tape)
            tries = 0
            while tries < 12 and hi - lo > 4 and time.monotonic() < deadline:
                tries += 1
                mid = (lo + hi) // 2
                r = self.run(plan, run_seed, tape=tape[:mid])
                if self._has(r, key):
                    hi = mid
                    tape = r.get("tape") or tape[:mid]
                    base = r
                else:
                    lo = mid
            # neutralise blocks
            block = max(1, len(tape) // 2)
            tries = 0
            while block >= 1 and tries < 80 and time.monotonic() < deadline:
                starts = list(range(0, len(tape), block))
                jobs = []
                for st in starts:
                    cand = [list(e) for e in tape]
                    changed = False
                    for i in range(st, min(st + block, len(tape))):
                        ne = neutral(cand[i])
                        if ne != cand[i]:
                            cand[i] = ne
                            changed = True
                    if changed:
                        jobs.append((plan, run_seed, cand))
                if jobs:
                    tries += len(jobs)
                    results = self.run_many(jobs)
                    for (_, _, cand), r in zip(jobs, results):
                        if self._has(r, key) and not r.get("stats", {}).get("tape_diverged"):
                            tape = r.get("tape") or cand
                            base = r
                            break
                    else:
                        block //= 2
                        continue
                    continue
                block //= 2
        # 3. final strict replay
        final = self.run(plan, run_seed, tape=tape if tape else None, strict=bool(tape), want_log=True)
        if not self._has(final, key):
            final = self.run(plan, run_seed, want_log=True)
            tape = final.get("tape") or []
            if not self._has(final, key):
                return None, f"minimised run of {signature} stopped reproducing"
        viol = [v for v in final["violations"] if sig_key(v["signature"]) == key][0]
        replay = {
            "format": 1, "engine": self.engine.NAME, "property": self.prop, "seed": self.seed,
            "run_seed": run_seed, "pythonhashseed": int(os.environ.get("PYTHONHASHSEED", "0")),
            "repo_digest": self.repo_digest, "plan": plan, "tape": tape,
            "verdict": {"signature": viol["signature"], "detail": viol["detail"]},
            "log_digest": final.get("log_digest"), "log_tail": final.get("log", [])[-60:],
        }
        return replay, None

    def write_replay(self, replay, directory=None):
        directory = directory or os.path.join(VERIF, "replays")
        if os.path.abspath(build.repo_root()) != "/repo":
            directory = os.path.join(VERIF, "replays", "mutants")     # runs against scratch copies (sensitivity testing)
        os.makedirs(directory, exist_ok=True)
        name = re.sub(r"[^A-Za-z0-9_.@+-]+", "_", replay["verdict"]["signature"])[:120]
        path = os.path.join(directory, f"{name}-{replay['run_seed'] % 100000}.json")
        with open(path, "w") as f:
            json.dump(replay, f, indent=1, default=lanes._json_default)
        return path

    def replay_file(self, path, strict=True, verbose=False):
        with open(path) as f:
            rp = json.load(f)
        res = self.run(rp["plan"], rp["run_seed"], tape=rp.get("tape") or None, strict=strict and bool(rp.get("tape")), want_log=True)
        return rp, res


# ---------------------------------------------------------------------------------------
def check_main(engine, prop, tiers, argv=None):
    ap = argparse.ArgumentParser(prog=f"check {prop}")
    ap.add_argument("--tier", default=os.environ.get("VERIF_TIER", "quick"), choices=["quick", "thorough"])
    ap.add_argument("--replay")
    ap.add_argument("--runs", type=int)
    ap.add_argument("--budget", type=float)
    ap.add_argument("--no-evidence", action="store_true")
    ap.add_argument("--digests", help="write per-run digests to this file (determinism self-test)")
    ap.add_argument("--first", type=int, default=0, help="first run index")
    args = ap.parse_args(argv)
    reexec_pinned()
    t0 = time.monotonic()
    seed = int(os.environ.get("VERIF_SEED", "1"))
    warm_zygote()
    drv = Driver(engine, prop, args.tier, seed)
    print(f"# check {prop} engine={engine.NAME} tier={args.tier} VERIF_SEED={seed} repo={build.repo_root()} digest={drv.repo_digest} PYTHONHASHSEED={os.environ.get('PYTHONHASHSEED')}")
    sys.stdout.flush()

    if args.replay:
        rp, res = drv.replay_file(args.replay)
        for e in res.get("log", [])[-40:]:
            print("  log:", " ".join(map(str, e)))
        sigs = drv._sigs(res, prop)
        if res.get("outcome") == "harness":
            print("HARNESS-ERROR", res.get("error"), res.get("traceback", ""))
            return 2
        want = rp["verdict"]["signature"]
        if any(sig_key(s) == sig_key(want) for s in sigs):
            v = [v for v in res["violations"] if sig_key(v["signature"]) == sig_key(want)][0]
            print(f"reproduced: {v['signature']}\n  {v['detail']}")
            k = known_match(v["signature"], drv.known)
            if k:
                print(f"KNOWN-FINDING: property={prop} {k['what']}")
                return 0
            print(f"VIOLATION property={prop} replay={args.replay}")
            return 1
        print(f"not reproduced (recorded {want}; now {sigs or res.get('outcome')})")
        return 0

    cfg = tiers[args.tier]
    nruns = args.runs or int(os.environ.get("VERIF_RUNS", "0")) or cfg["runs"]
    budget = args.budget or float(os.environ.get("VERIF_BUDGET", "0")) or cfg["budget_s"]
    exit_code = 0
    known_lines = []
    # -- committed known findings are replayed first --------------------------------------
    for k in drv.known:
        if k.get("status") != "open" or not k.get("replay"):
            continue
        path = os.path.join(VERIF, k["replay"])
        try:
            rp, res = drv.replay_file(path, strict=False)
        except Exception as exc:  # noqa
            print(f"NOTE: known finding {k['signature']}: replay file unusable ({exc})")
            continue
        sigs = drv._sigs(res, prop)
        if any(known_match(s, [k]) for s in sigs):
            line = f"KNOWN-FINDING: property={prop} {k['what']}"
            known_lines.append(line)
            print(line)
        else:
            print(f"NOTE: known finding {k.get('signature') or k.get('signature_regex')} no longer reproduces from {k['replay']}")
    sys.stdout.flush()

    # -- seeded search ----------------------------------------------------------------------
    tier = args.tier

    def make_arg(i):
        rs = derive_seed(seed, engine.NAME + ":" + prop, i)
        retries = 0
        while True:
            try:
                plan = engine.gen_plan(random.Random(rs + retries), tier)
                break
            except Exception:
                # a corner case of the plan generator must not turn into a broken check: draw again
                # (deterministically) and report how often that happened
                retries += 1
                if retries > 5:
                    raise
        return {"plan": plan, "run_seed": rs, "tape": None, "want_tape": False, "prop": prop,
                "want_plan": i < args.first + 3, "plan_retries": retries}

    results = lanes.sweep(engine.execute, make_arg, range(args.first, args.first + nruns), budget_s=budget)
    wall_sweep = time.monotonic() - t0
    run_wall = sorted(r.get("wall_s", 0) for r in results.values())
    if os.environ.get("VERIF_SLOWEST"):
        for i_, r_ in sorted(results.items(), key=lambda kv: -kv[1].get("wall_s", 0))[: int(os.environ["VERIF_SLOWEST"])]:
            print(f"# slow run {i_}: {r_.get('wall_s', 0):.1f}s outcome={r_.get('outcome')} decisions={r_.get('stats', {}).get('decisions')} tasks={r_.get('stats', {}).get('tasks')}")
    if run_wall:
        print(f"# sweep: {len(results)} runs in {wall_sweep:.1f}s; per-run wall median {run_wall[len(run_wall)//2]:.2f}s p90 {run_wall[int(len(run_wall)*0.9)]:.2f}s max {run_wall[-1]:.2f}s sum {sum(run_wall):.0f}s")
        sys.stdout.flush()
    done = sorted(results)
    harness = [i for i in done if results[i].get("outcome") == "harness"]
    stats = {}
    pairs = set()
    nontrivial = 0
    viol_runs = []
    for i in done:
        r = results[i]
        for k, v in (r.get("stats") or {}).items():
            if k.startswith("max_"):
                stats[k] = max(stats.get(k, 0), v)
            else:
                stats[k] = stats.get(k, 0) + v
        if r.get("nontrivial"):
            nontrivial += 1
            pairs.add((r.get("shape"), r.get("tape_digest")))
        if drv._sigs(r, prop):
            viol_runs.append(i)
    if args.digests:
        with open(args.digests, "w") as f:
            for i in done:
                r = results[i]
                f.write(f"{i} {r.get('outcome')} {r.get('shape')} {r.get('tape_digest')} {r.get('log_digest')} {','.join(sorted(drv._sigs(r, prop)))}\n")
    # -- triage violations -------------------------------------------------------------------
    reported = {}
    known_hits = {}
    minimised = 0
    for i in viol_runs:
        r = results[i]
        for v in r["violations"]:
            if v.get("property") != prop:
                continue
            sig = v["signature"]
            k = known_match(sig, drv.known)
            if k:
                known_hits[k["what"]] = known_hits.get(k["what"], 0) + 1
                continue
            if sig_key(sig) in reported:
                reported[sig_key(sig)]["count"] += 1
                continue
            entry = {"count": 1, "signature": sig, "detail": v["detail"], "run": i}
            reported[sig_key(sig)] = entry
    n_listed = 0
    for key, entry in sorted(reported.items(), key=lambda kv: kv[1]["run"]):
        r = results[entry["run"]]
        replay = None
        n_listed += 1
        if n_listed > 2 * MAX_MINIMISE and exit_code == 1:
            entry["unlisted"] = True
            continue
        if os.environ.get("VERIF_NO_MINIMISE"):
            print(f"# (not minimised) {entry['signature']} run {entry['run']}")
            continue
        if minimised < MAX_MINIMISE:
            minimised += 1
            print(f"# minimising {entry['signature']} (run {entry['run']}, seen in {entry['count']} runs)")
            sys.stdout.flush()
            replay, err = drv.minimise(r["plan"], derive_seed(seed, engine.NAME + ":" + prop, entry["run"]), entry["signature"])
            if replay is None and err.startswith("UNCONFIRMED"):
                # By this method's own standard an observation that does not replay is not a finding: it is
                # reported and counted, never raised as an alarm (and never silently dropped)
                print(f"# NOTE: {err}")
                entry["unconfirmed"] = True
                continue
            if replay is None:
                print(f"HARNESS-ERROR {err}")
                exit_code = max(exit_code, 2)
                entry["harness"] = err
                continue
        else:
            replay = {"format": 1, "engine": engine.NAME, "property": prop, "seed": seed,
                      "run_seed": derive_seed(seed, engine.NAME + ":" + prop, entry["run"]), "pythonhashseed": 0,
                      "repo_digest": drv.repo_digest, "plan": r["plan"], "tape": r.get("tape") or [],
                      "verdict": {"signature": entry["signature"], "detail": entry["detail"]}, "unminimised": True}
        fsig = replay["verdict"]["signature"]
        k = known_match(fsig, drv.known)
        if k:
            known_hits[k["what"]] = known_hits.get(k["what"], 0) + entry["count"]
            entry["known"] = True
            continue
        path = drv.write_replay(replay)
        # the replay file must reproduce in a fresh interpreter
        cmd = [sys.executable, os.path.join(VERIF, "checks.py"), prop, "--replay", path]
        sub_env = {k: v for k, v in os.environ.items() if k != "VERIF_SCRATCH"}
        pr = subprocess.run(cmd, capture_output=True, text=True, env=sub_env, timeout=600)
        if pr.returncode != 1 or f"VIOLATION property={prop}" not in pr.stdout:
            print(f"HARNESS-ERROR replay of {path} in a fresh interpreter did not reproduce (exit {pr.returncode}): {pr.stdout[-500:]} {pr.stderr[-300:]}")
            exit_code = max(exit_code, 2)
            entry["harness"] = "replay did not reproduce"
            continue
        entry["replay"] = path
        entry["signature_min"] = fsig
        print(f"  {fsig}\n  {replay['verdict']['detail']}")
        print(f"VIOLATION property={prop} replay={path}")
        exit_code = max(exit_code, 1)
    extra = sum(1 for e in reported.values() if e.get("unlisted"))
    if extra:
        print(f"# ... and {extra} more distinct violation signatures not listed individually")
    for what, n in sorted(known_hits.items()):
        line = f"KNOWN-FINDING: property={prop} {what}"
        if line not in known_lines:
            known_lines.append(line)
            print(line)
        print(f"#   (seen in {n} runs of the seeded search)")
    if harness:
        print(f"HARNESS-ERROR {len(harness)} runs ended with a harness error, first: run {harness[0]}: {results[harness[0]].get('error')}\n{results[harness[0]].get('traceback', '')}")
        exit_code = max(exit_code, 2)
    wall = time.monotonic() - t0
    # -- evidence --------------------------------------------------------------------------
    n_viol = sum(1 for e in reported.values() if e.get("replay"))
    samples = []
    for i in done[:3]:
        p = make_arg(i)["plan"]
        samples.append({"run": i, "case": engine.sample(p), "outcome": results[i].get("outcome")})
    faults = {k[6:]: v for k, v in stats.items() if k.startswith("fault.")}
    zero_probes = [k for k in getattr(engine, "PROBES", []) if not stats.get(k)]
    evidence = {
        "property_id": prop, "tier": args.tier, "seed": seed, "level": "exploration",
        "coverage": {
            "evaluations": len(done),
            "distinct_nontrivial": len(pairs),
            "rule": engine.NONTRIVIAL_RULE,
            "samples": samples,
            "runs_requested": nruns, "runs_completed": len(done), "runs_nontrivial": nontrivial,
            "runs_per_hour": int(len(done) / max(wall_sweep, 1e-3) * 3600),
            "simulated_time": "n/a - the code under test reads no clock except read_swan's now(), which is pinned",
            "scheduler_steps": stats.get("decisions", 0) + stats.get("steps", 0),
            "fault_kinds_fired": faults,
            "reach_probes": {k: v for k, v in sorted(stats.items()) if not k.startswith("fault.")},
            "probes_stuck_at_zero": zero_probes,
            "components": getattr(engine, "COMPONENTS", {}),
            "known_findings_seen": known_hits,
            "violation_signatures": sorted(e.get("signature_min", e["signature"]) for e in reported.values() if not e.get("known") and not e.get("unconfirmed")),
            "harness_errors": len(harness),
            "unconfirmed_observations": sorted(e["signature"] for e in reported.values() if e.get("unconfirmed")),
            "lanes": int(os.environ.get("VERIF_LANES", "0")) or min(16, os.cpu_count() or 1),
            "repo_digest": drv.repo_digest,
        },
        "assumptions": getattr(engine, "ASSUMPTIONS", []),
        "wall_s": round(wall, 2),
        "violations": n_viol,
    }
    if not args.no_evidence:
        os.makedirs(os.path.join(VERIF, "evidence"), exist_ok=True)
        with open(os.path.join(VERIF, "evidence", f"{prop}.json"), "w") as f:
            json.dump(evidence, f, indent=1, default=lanes._json_default)
    for k in zero_probes:
        print(f"# WARNING reach probe '{k}' stayed at zero")
    if n_viol:
        exit_code = 1      # a confirmed, replayable violation decides the verdict even if other runs had harness trouble
    print(f"# {prop}: {len(done)}/{nruns} runs, {nontrivial} non-trivial ({len(pairs)} distinct), {n_viol} violations, "
          f"{sum(known_hits.values())} known-finding hits, {len(harness)} harness errors, faults fired {faults}, {wall:.1f}s")
    return exit_code
