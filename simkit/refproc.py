"""Reference process for the freshness oracle (C18).

The run child forks a *reference server* before it does anything else; the server is therefore
pristine with respect to every piece of process-global state a history can touch.  For each
request it forks a grandchild that has never executed a wavespectra call, lets it answer once
and exit."""
import os
import pickle
import select
import socket
import struct


def _send(sock, obj):
    data = pickle.dumps(obj, protocol=pickle.HIGHEST_PROTOCOL)
    sock.sendall(struct.pack("<Q", len(data)) + data)


def _recv(sock, timeout=None):
    def exact(n):
        buf = b""
        while len(buf) < n:
            if timeout is not None:
                r, _, _ = select.select([sock], [], [], timeout)
                if not r:
                    raise TimeoutError("reference process did not answer")
            chunk = sock.recv(min(1 << 20, n - len(buf)))
            if not chunk:
                raise EOFError("reference process closed the connection")
            buf += chunk
        return buf

    (n,) = struct.unpack("<Q", exact(8))
    return pickle.loads(exact(n))


class RefServer:
    def __init__(self, handler):
        self.parent_sock, child_sock = socket.socketpair()
        self.pid = os.fork()
        if self.pid == 0:
            self.parent_sock.close()
            try:
                self._serve(child_sock, handler)
            finally:
                os._exit(0)
        child_sock.close()
        self.calls = 0

    @staticmethod
    def _serve(sock, handler):
        while True:
            try:
                req = _recv(sock)
            except (EOFError, OSError):
                return
            if req is None:
                return
            pid = os.fork()
            if pid == 0:
                try:
                    try:
                        rep = handler(req)
                    except BaseException as exc:  # noqa
                        import traceback

                        rep = {"harness": f"{type(exc).__name__}: {exc}", "tb": traceback.format_exc()[-2000:]}
                    _send(sock, rep)
                finally:
                    os._exit(0)
            _, status = os.waitpid(pid, 0)
            if status != 0:
                _send(sock, {"harness": f"reference child died (wait status {status})"})

    def call(self, req, timeout=90):
        self.calls += 1
        _send(self.parent_sock, req)
        return _recv(self.parent_sock, timeout=timeout)

    def close(self):
        try:
            _send(self.parent_sock, None)
            self.parent_sock.close()
        except OSError:
            pass
        try:
            os.waitpid(self.pid, 0)
        except ChildProcessError:
            pass
