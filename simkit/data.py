"""Datasets are never stored as numbers: they are regenerated from small JSON recipes.

recipe = {
  "dims": [["time", 3], ["site", 2]],          leading (non-spectral) dims in storage order
  "nf": 8, "nd": 12,                           nd == 0 -> one-dimensional E(f)
  "freq": {"kind": "log"|"lin"|"irr", "f0": 0.04, "r": 1.15},
  "dir": {"dir0": 5.0, "order": "asc"|"desc"|"rot"|"shuf"},
  "dtype": "float64"|"float32",
  "data": {"kind": "int_bumps"|"peaked"|"random", "seed": 7, "zero_at": -1, "nan_at": -1},
  "spec_last": true                            false -> (freq, dir) stored before other dims
}
"""
import numpy as np
import xarray as xr


def make_freq(nf, spec):
    kind = spec.get("kind", "log")
    f0 = float(spec.get("f0", 0.04))
    if kind == "log":
        f = f0 * float(spec.get("r", 1.1)) ** np.arange(nf)
    elif kind == "lin":
        f = f0 + float(spec.get("df", 0.02)) * np.arange(nf)
    else:  # irregular but increasing
        rng = np.random.default_rng(int(spec.get("seed", 0)))
        f = f0 + np.concatenate([[0.0], np.cumsum(rng.uniform(0.005, 0.04, nf - 1))])
    return np.round(f, 6)


def make_dir(nd, spec):
    dd = 360.0 / nd
    d = (float(spec.get("dir0", 0.0)) + dd * np.arange(nd)) % 360.0
    order = spec.get("order", "asc")
    if order == "asc":
        d = np.sort(d)
    elif order == "desc":
        d = np.sort(d)[::-1].copy()
    elif order == "rot":
        d = np.roll(np.sort(d), int(spec.get("shift", 1)))
    elif order == "shuf":
        rng = np.random.default_rng(int(spec.get("seed", 0)))
        d = rng.permutation(np.sort(d))
    if spec.get("north360"):
        # (0, 360] convention: north is labelled 360 instead of 0
        d = np.where(d == 0.0, 360.0, d)
        if order == "asc":
            d = np.sort(d)
    return d


def _bumps(rng, nf, nd, integer, npos, many=False):
    """Return array (npos, nf, max(nd,1)) of multi-modal spectra with well separated peaks."""
    ndd = max(nd, 1)
    out = np.zeros((npos, nf, ndd))
    fi = np.arange(nf)[:, None]
    dj = np.arange(ndd)[None, :]
    for p in range(npos):
        nb = int(rng.integers(1, 4)) if not many else int(rng.integers(3, 8))
        amps = sorted(rng.uniform(20, 200, nb), reverse=True)
        for b in range(nb):
            i0 = rng.uniform(0.5, nf - 1.5) if nf > 2 else rng.uniform(0, nf - 1)
            j0 = rng.uniform(0, ndd)
            wf = rng.uniform(0.7, max(0.8, nf / 4)) if not many else rng.uniform(0.6, max(0.7, nf / 8))
            wd = rng.uniform(0.7, max(0.8, ndd / 5)) if not many else rng.uniform(0.6, max(0.7, ndd / 10))
            dcirc = np.minimum(np.abs(dj - j0), ndd - np.abs(dj - j0)) if nd > 0 else 0 * dj
            # make the runner-up clearly smaller so argmax never flips on 1-ulp noise
            amp = amps[b] * (0.55**b if not many else 0.8**b)
            out[p] += amp * np.exp(-(((fi - i0) / wf) ** 2) - (dcirc / wd) ** 2)
        if integer:
            out[p] = np.round(out[p])
    return out


def make_values(recipe):
    nf, nd = int(recipe["nf"]), int(recipe.get("nd", 0))
    dims = recipe.get("dims", [])
    npos = int(np.prod([n for _, n in dims])) if dims else 1
    d = recipe.get("data", {})
    kind = d.get("kind", "peaked")
    rng = np.random.default_rng(int(d.get("seed", 0)))
    ndd = max(nd, 1)
    if kind == "int_bumps":
        vals = _bumps(rng, nf, nd, True, npos)
    elif kind == "int_multi":   # many separate wave systems: exercises the partition merging logic
        vals = _bumps(rng, nf, nd, True, npos, many=True)
    elif kind == "peaked":
        vals = _bumps(rng, nf, nd, False, npos) * rng.uniform(1e-3, 1.0)
        vals += rng.uniform(0, 1e-6, vals.shape)
    elif kind == "unimodal":
        # one smooth, well resolved peak per position: well-conditioned input for the nonlinear fits
        fi = np.arange(nf)[:, None]
        dj = np.arange(ndd)[None, :]
        vals = np.zeros((npos, nf, ndd))
        edge = float(d.get("edge_peaks", 0.0))
        for p in range(npos):
            i0 = rng.uniform(1.0, max(1.0, nf - 2.0))
            if edge and rng.random() < edge:
                i0 = rng.choice([0.0, nf - 1.0])  # peak in the first/last bin: no interior peak, fp is undefined
            wf = rng.uniform(1.0, max(1.2, nf / 5))
            j0 = rng.uniform(0, ndd)
            wd = rng.uniform(0.8, max(1.0, ndd / 4))
            dcirc = np.minimum(np.abs(dj - j0), ndd - np.abs(dj - j0)) if nd > 0 else 0 * dj
            vals[p] = rng.uniform(0.5, 20) * np.exp(-(((fi - i0) / wf) ** 2) - (dcirc / wd) ** 2)
    elif kind == "gapped":
        # swell and wind sea with exactly empty bins between them (thresholded model output, partitioned spectra):
        # every direction that has energy has it in two frequency bands separated by zeros
        vals = np.zeros((npos, nf, ndd))
        for p in range(npos):
            a1 = int(rng.integers(0, max(1, nf // 3)))
            b1 = a1 + 1 + int(rng.integers(0, 2))
            a2 = min(nf - 1, b1 + 1 + int(rng.integers(1, 3)))
            dirs_on = rng.random(ndd) < 0.6
            dirs_on[int(rng.integers(ndd))] = True
            for j in np.nonzero(dirs_on)[0]:
                vals[p, a1:b1, j] = np.round(rng.uniform(1, 30, b1 - a1), 2)
                vals[p, a2:, j] = np.round(rng.uniform(0.5, 10, nf - a2), 2)
    elif kind == "random":
        vals = rng.uniform(0, 1, (npos, nf, ndd))
    elif kind == "decades":
        vals = 10.0 ** rng.uniform(-6, 2, (npos, nf, ndd))
    elif kind == "huge":
        vals = 10.0 ** rng.uniform(2, 7, (npos, nf, ndd))
    elif kind == "tiny":
        vals = 10.0 ** rng.uniform(-14, -9, (npos, nf, ndd))
    elif kind == "single_bin":
        vals = np.zeros((npos, nf, ndd))
        for p in range(npos):
            vals[p, rng.integers(nf), rng.integers(ndd)] = rng.choice([1e-3, 0.7, 42.0, 9999.0])
    else:
        raise ValueError(kind)
    za = int(d.get("zero_at", -1))
    na = int(d.get("nan_at", -1))
    ca = int(d.get("calm_at", -1))
    if 0 <= ca < npos:
        vals[ca] = vals[ca] * float(d.get("calm_scale", 1e-7))     # a dead-calm spectrum among ordinary ones
    if 0 <= za < npos:
        vals[za] = 0.0
    if 0 <= na < npos:
        vals[na] = np.nan
    nb = int(d.get("nan_bins", 0))
    if nb:
        # a few missing bins (e.g. masked frequencies) inside otherwise ordinary spectra
        flat = vals.reshape(-1)
        flat[rng.integers(0, flat.size, nb)] = np.nan
    return vals


def coord_values(name, n, recipe):
    if name == "time":
        t0 = np.datetime64(recipe.get("t0", "2020-01-01T00:00:00"), recipe.get("time_unit", "ns"))
        step = int(recipe.get("dt_s", 3600))
        if recipe.get("time_irregular") and n > 2:
            rng = np.random.default_rng(int(recipe.get("data", {}).get("seed", 0)) + 31)
            k = np.concatenate([[0], np.cumsum(rng.integers(1, 5, n - 1))])      # strictly increasing, uneven steps
            return t0 + k * np.timedelta64(step, "s")
        return t0 + np.arange(n) * np.timedelta64(step, "s")
    if name == "site":
        return np.arange(1, n + 1)
    if name == "lat":
        v = float(recipe.get("lat0", -30.0)) + float(recipe.get("dlat", 0.5)) * np.arange(n)
        return v[::-1].copy() if recipe.get("lat_desc") else v
    if name == "lon":
        v = float(recipe.get("lon0", 150.0)) + float(recipe.get("dlon", 0.25)) * np.arange(n)
        return v[::-1].copy() if recipe.get("lon_desc") else v
    return np.arange(n)


def make_dataset(recipe, winds=True):
    """Build the numpy-backed Dataset described by recipe (efth, optionally wspd/wdir/dpt)."""
    nf, nd = int(recipe["nf"]), int(recipe.get("nd", 0))
    dims = [(str(k), int(n)) for k, n in recipe.get("dims", [])]
    dtype = recipe.get("dtype", "float64")
    freq = make_freq(nf, recipe.get("freq", {}))
    lead_names = [k for k, _ in dims]
    lead_shape = [n for _, n in dims]
    vals = make_values(recipe).astype(dtype)
    spec_names = ["freq"] + (["dir"] if nd > 0 else [])
    spec_shape = [nf] + ([nd] if nd > 0 else [])
    arr = vals.reshape(lead_shape + spec_shape)
    names = lead_names + spec_names
    coords = {k: coord_values(k, n, recipe) for k, n in dims}
    coords["freq"] = freq.astype(recipe.get("freq_dtype", "float64"))
    if nd > 0:
        d = make_dir(nd, recipe.get("dir", {}))
        ddt = recipe.get("dir_dtype", "float64")
        if ddt.startswith("int") and not np.all(d == np.round(d)):
            ddt = "float64"       # integer direction labels only when they are whole degrees
        coords["dir"] = d.astype(ddt)
    if recipe.get("site_labels") == "str" and "site" in coords:
        coords["site"] = np.array([f"st{i:02d}" for i in range(len(coords["site"]))])
    da = xr.DataArray(arr, dims=names, coords=coords, name="efth")
    if not recipe.get("spec_last", True) and lead_names:
        da = da.transpose(*(spec_names + lead_names)).copy()
    if recipe.get("dir_first") and nd > 0:
        # direction stored ahead of frequency (a legal dims order in the wavespectra convention)
        order = [d for d in da.dims if d not in ("freq", "dir")]
        pos = list(da.dims).index("freq")
        order = list(da.dims)
        i, j = order.index("freq"), order.index("dir")
        order[i], order[j] = order[j], order[i]
        da = da.transpose(*order).copy()
        if int(recipe.get("data", {}).get("seed", 0)) % 2 or recipe.get("dir_first") == "c":
            # built direction-major in the first place (rows are directions, contiguous in memory) rather than being a
            # transposed copy of a frequency-major array
            da = da.copy(data=np.ascontiguousarray(da.values))
    ds = da.to_dataset()
    rng = np.random.default_rng(int(recipe.get("aux_seed", recipe.get("data", {}).get("seed", 0))) + 7919)   # "aux_seed": two datasets share sites, winds, depths
    if "site" in lead_names:
        ns = dict(dims)["site"]
        dlon, dlat = np.round(rng.uniform(0, 5, ns), 3), np.round(rng.uniform(0, 5, ns), 3)
        if recipe.get("origin_site"):
            dlon[0] = dlat[0] = 0.0            # the first station sits exactly at (lon0, lat0), e.g. (0, 0)
        ds["lon"] = (("site",), float(recipe.get("lon0", 150.0)) + dlon)
        ds["lat"] = (("site",), float(recipe.get("lat0", -30.0)) + dlat)
        ds = ds.set_coords(["lon", "lat"])
    if winds:
        shp = lead_shape
        ds["wspd"] = (lead_names, np.round(rng.uniform(3, 25, shp), 2).astype(dtype))
        ds["wdir"] = (lead_names, np.round(rng.uniform(0, 360, shp), 1).astype(dtype))
        depth = recipe.get("depth", "shelf")
        if depth == "deep":        # open ocean everywhere
            dpt = np.round(rng.uniform(1500, 5500, shp), 1)
        elif depth == "mixed":     # from the surf zone to the abyss
            dpt = np.round(10.0 ** rng.uniform(0.7, 3.7, shp), 1)
        else:
            dpt = np.round(rng.uniform(8, 400, shp), 1)
        ds["dpt"] = (lead_names, dpt.astype(dtype))
    if recipe.get("scalar_lonlat") and "site" in ds.dims and ds.sizes["site"] == 1 and "lon" in ds.coords:
        # a single station whose position is given by scalar lon/lat data variables
        lo, la = float(ds["lon"].values[0]), float(ds["lat"].values[0])
        ds = ds.drop_vars(["lon", "lat"])
        ds["lon"] = ((), lo)
        ds["lat"] = ((), la)
    if recipe.get("scalar_coord"):
        ds = ds.assign_coords(cycle=np.datetime64("2020-01-01T00:00:00", "ns"))
    if recipe.get("exotic_attrs"):
        # attribute values that are containers of non-trivial objects (legal in xarray, owned by the caller)
        import datetime as _dt

        ds.attrs["history"] = [_dt.datetime(2020, 1, 2, 3, 4, 5), np.float32(0.25), "created"]
        ds["efth"].attrs["meta"] = {"levels": np.array([0.1, 0.2]), "when": np.datetime64("2020-01-01T00:00:00"), "n": np.int64(3)}
        ds["freq"].attrs["bounds"] = (np.float64(0.03), np.float64(0.5))
    if recipe.get("std_attrs"):
        # attributes as the library's readers put them on datasets (static table, not a library call)
        std = {
            "efth": {"standard_name": "sea_surface_wave_directional_variance_spectral_density", "units": "m2 s degree-1"},
            "freq": {"standard_name": "sea_surface_wave_frequency", "units": "Hz"},
            "dir": {"standard_name": "sea_surface_wave_from_direction", "units": "degree"},
            "time": {"standard_name": "time"}, "site": {"standard_name": "site", "units": ""},
            "lon": {"standard_name": "longitude", "units": "degree_east"}, "lat": {"standard_name": "latitude", "units": "degree_north"},
            "wspd": {"standard_name": "wind_speed", "units": "m s-1"}, "wdir": {"standard_name": "wind_from_direction", "units": "degree"},
            "dpt": {"standard_name": "sea_floor_depth_below_sea_surface", "units": "m"},
        }
        for name, a in std.items():
            if name in ds.variables:
                ds[name].attrs.update(a)
        ds.attrs["source"] = "verif recipe"
    ga = recipe.get("global_attrs")
    if ga:
        # global attributes as datasets carry them after a life in other tools / other file conventions
        ds.attrs.update({
            "cf": {"Conventions": "CF-1.6", "title": "wave spectra", "institution": "verif", "history": "2020-01-01 created"},
            "acdd": {"Conventions": "CF-1.8, ACDD-1.3", "product_name": "spectra", "geospatial_lat_min": -90.0, "geospatial_lat_max": 90.0,
                     "time_coverage_start": "2020-01-01T00:00:00Z", "southernmost_latitude": -30.0, "northernmost_latitude": -25.0,
                     "westernmost_longitude": 150.0, "easternmost_longitude": 155.0},
            "model": {"Conventions": "WAVEWATCH III", "product_name": "ww3.202001_spec.nc", "area": "global", "start_date": "2020-01-01 00:00:00",
                      "stop_date": "2020-01-02 00:00:00", "field_type": "hourly", "format_version": "1.1"},
        }[ga])
    return ds


def site_coords(recipe):
    """lon/lat of the sites make_dataset() creates for this recipe."""
    dims = dict((k, n) for k, n in recipe.get("dims", []))
    ns = dims.get("site", 0)
    rng = np.random.default_rng(int(recipe.get("aux_seed", recipe.get("data", {}).get("seed", 0))) + 7919)   # "aux_seed": two datasets share sites, winds, depths
    dlon, dlat = np.round(rng.uniform(0, 5, ns), 3), np.round(rng.uniform(0, 5, ns), 3)
    if recipe.get("origin_site") and ns:
        dlon[0] = dlat[0] = 0.0
    return float(recipe.get("lon0", 150.0)) + dlon, float(recipe.get("lat0", -30.0)) + dlat


def describe(recipe):
    """Short shape string used for 'distinct' counting."""
    dims = "x".join(f"{k}{n}" for k, n in recipe.get("dims", []))
    return (
        f"{dims}|f{recipe['nf']}d{recipe.get('nd', 0)}|{recipe.get('dtype', 'float64')}|"
        f"{recipe.get('data', {}).get('kind', 'peaked')}|{recipe.get('dir', {}).get('order', 'asc')}"
        f"{'|dirfirst' if recipe.get('dir_first') else ''}{'|' + recipe['dir_dtype'] if recipe.get('dir_dtype', 'float64') != 'float64' else ''}"
        f"{'|f32freq' if recipe.get('freq_dtype') == 'float32' else ''}{'|strsite' if recipe.get('site_labels') == 'str' else ''}"
    )
