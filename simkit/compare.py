"""Labelled comparison of xarray objects (dims, coords, dtype, values with NaN==NaN, attrs, name).

canon(obj) turns a (computed) DataArray / Dataset / tuple / ndarray / scalar into a plain,
picklable structure; compare(a, b, ...) returns None when equal or (mismatch_class, detail).
"""
import json

import numpy as np


def _attr_value(v):
    if isinstance(v, np.ndarray):
        return ["ndarray", v.tolist()]
    if isinstance(v, np.generic):
        return ["np", type(v).__name__, v.item() if not isinstance(v, (np.datetime64, np.timedelta64)) else str(v)]
    if isinstance(v, dict):
        return {str(k): _attr_value(x) for k, x in v.items()}
    if isinstance(v, (list, tuple)):
        return [type(v).__name__] + [_attr_value(x) for x in v]
    if isinstance(v, (str, int, float, bool)) or v is None:
        return v
    return repr(v)


def canon_attrs(attrs):
    return json.dumps({str(k): _attr_value(v) for k, v in attrs.items()}, sort_keys=True, default=repr)


def canon_var(var, encoding=False):
    vals = np.asarray(var.values)
    out = {
        "dims": tuple(var.dims),
        "dtype": str(vals.dtype),
        "shape": tuple(vals.shape),
        "values": vals,
        "attrs": canon_attrs(var.attrs),
    }
    if encoding:
        out["encoding"] = canon_attrs(var.encoding)
    return out


def canon(obj, encoding=False):
    import xarray as xr

    if isinstance(obj, xr.Dataset):
        obj = obj.compute()
        return {
            "kind": "Dataset",
            "attrs": canon_attrs(obj.attrs),
            "sizes": {str(k): int(v) for k, v in obj.sizes.items()},
            "vars": {str(k): canon_var(v.variable, encoding) for k, v in obj.data_vars.items()},
            "var_order": [str(k) for k in obj.data_vars],
            "coords": {str(k): canon_var(v.variable, encoding) for k, v in obj.coords.items()},
        }
    if isinstance(obj, xr.DataArray):
        obj = obj.compute()
        return {
            "kind": "DataArray",
            "name": None if obj.name is None else str(obj.name),
            "var": canon_var(obj.variable, encoding),
            "coords": {str(k): canon_var(v.variable, encoding) for k, v in obj.coords.items()},
        }
    if isinstance(obj, (tuple, list)):
        return {"kind": "seq", "type": type(obj).__name__, "items": [canon(x, encoding) for x in obj]}
    if isinstance(obj, np.ndarray):
        return {"kind": "ndarray", "dtype": str(obj.dtype), "shape": tuple(obj.shape), "values": obj}
    if isinstance(obj, np.generic):
        return {"kind": "scalar", "type": type(obj).__name__, "value": obj.item()}
    if isinstance(obj, (int, float, str, bool)) or obj is None:
        return {"kind": "scalar", "type": type(obj).__name__, "value": obj}
    if isinstance(obj, dict):
        return {"kind": "dict", "items": {str(k): canon(v, encoding) for k, v in obj.items()}}
    if hasattr(obj, "compute") and hasattr(obj, "dask"):
        return canon(np.asarray(obj.compute()), encoding)
    return {"kind": "repr", "type": type(obj).__name__, "value": repr(obj)[:300]}


def _values_diff(a, b, rtol, atol):
    """None if equal (within tolerance when rtol/atol given), else (class, detail)."""
    if a.shape != b.shape:
        return "shape", f"{a.shape} vs {b.shape}"
    if a.dtype.kind in "fc" and b.dtype.kind in "fc":
        na, nb = np.isnan(a), np.isnan(b)
        if not np.array_equal(na, nb):
            idx = np.argwhere(na != nb)[0]
            return "nan-position", f"NaN mask differs at {tuple(int(i) for i in idx)}: {a[tuple(idx)]!r} vs {b[tuple(idx)]!r}"
        if np.array_equal(a, b, equal_nan=True):
            return None
        if rtol is None:
            bad = ~((a == b) | (na & nb))
            idx = np.argwhere(bad)[0]
            return "value", (
                f"{int(bad.sum())} of {a.size} values differ (exact); first at "
                f"{tuple(int(i) for i in idx)}: {a[tuple(idx)]!r} vs {b[tuple(idx)]!r}"
            )
        with np.errstate(invalid="ignore"):
            ok = np.isclose(a, b, rtol=rtol, atol=atol or 0.0, equal_nan=True)
        if ok.all():
            return None
        idx = np.argwhere(~ok)[0]
        return "value", (
            f"{int((~ok).sum())} of {a.size} values differ beyond rtol={rtol} atol={atol}; first at "
            f"{tuple(int(i) for i in idx)}: {a[tuple(idx)]!r} vs {b[tuple(idx)]!r}"
        )
    if a.dtype.kind == "M" or b.dtype.kind == "M" or a.dtype.kind == "m":
        try:
            if np.array_equal(a.astype("datetime64[ns]").view("int64"), b.astype("datetime64[ns]").view("int64")):
                return None
        except (TypeError, ValueError):
            pass
        return "value", f"time values differ: {a.ravel()[:3]} vs {b.ravel()[:3]}"
    try:
        if a.dtype == object or b.dtype == object:
            eq = a.tolist() == b.tolist()
        else:
            eq = np.array_equal(a, b)
    except Exception:
        eq = False
    if eq:
        return None
    return "value", f"values differ: {a.ravel()[:4].tolist()} vs {b.ravel()[:4].tolist()}"


def _var_diff(name, a, b, rtol, atol, check_dtype=True, check_attrs=True):
    if a["dims"] != b["dims"]:
        return "dims", f"{name}: dims {a['dims']} vs {b['dims']}"
    if check_dtype and a["dtype"] != b["dtype"]:
        return "dtype", f"{name}: dtype {a['dtype']} vs {b['dtype']}"
    d = _values_diff(a["values"], b["values"], rtol, atol)
    if d:
        return d[0], f"{name}: {d[1]}"
    if check_attrs and a["attrs"] != b["attrs"]:
        return "attrs", f"{name}: attrs {a['attrs'][:200]} vs {b['attrs'][:200]}"
    if "encoding" in a and "encoding" in b and a["encoding"] != b["encoding"]:
        return "encoding", f"{name}: encoding {a['encoding'][:200]} vs {b['encoding'][:200]}"
    return None


def compare(a, b, rtol=None, atol=None, tol_for=None, check_attrs=True, coord_rtol=None):
    """Compare two canon() structures.  rtol None => exact.  tol_for(name)->(rtol, atol) overrides
    per data variable.  Coordinates are compared exactly unless coord_rtol is given."""
    if a["kind"] != b["kind"]:
        return "type", f"{a['kind']} vs {b['kind']}"
    k = a["kind"]
    if k == "Dataset":
        if sorted(a["vars"]) != sorted(b["vars"]):
            return "variables", f"data_vars {sorted(a['vars'])} vs {sorted(b['vars'])}"
        if sorted(a["coords"]) != sorted(b["coords"]):
            return "coords", f"coords {sorted(a['coords'])} vs {sorted(b['coords'])}"
        for n in sorted(a["coords"]):
            d = _var_diff(f"coord {n}", a["coords"][n], b["coords"][n], coord_rtol, 0.0, check_attrs=check_attrs)
            if d:
                return ("coord-" + d[0], d[1])
        for n in sorted(a["vars"]):
            r, t = tol_for(n) if tol_for else (rtol, atol)
            d = _var_diff(f"var {n}", a["vars"][n], b["vars"][n], r, t, check_attrs=check_attrs)
            if d:
                return d
        if check_attrs and a["attrs"] != b["attrs"]:
            return "attrs", f"dataset attrs {a['attrs'][:200]} vs {b['attrs'][:200]}"
        return None
    if k == "DataArray":
        if a["name"] != b["name"]:
            return "name", f"name {a['name']!r} vs {b['name']!r}"
        if sorted(a["coords"]) != sorted(b["coords"]):
            return "coords", f"coords {sorted(a['coords'])} vs {sorted(b['coords'])}"
        for n in sorted(a["coords"]):
            d = _var_diff(f"coord {n}", a["coords"][n], b["coords"][n], coord_rtol, 0.0, check_attrs=check_attrs)
            if d:
                return ("coord-" + d[0], d[1])
        r, t = tol_for(a["name"]) if tol_for else (rtol, atol)
        return _var_diff(f"array {a['name']}", a["var"], b["var"], r, t, check_attrs=check_attrs)
    if k == "seq":
        if len(a["items"]) != len(b["items"]):
            return "length", f"{len(a['items'])} vs {len(b['items'])} items"
        for i, (x, y) in enumerate(zip(a["items"], b["items"])):
            d = compare(x, y, rtol, atol, tol_for, check_attrs, coord_rtol)
            if d:
                return d[0], f"item {i}: {d[1]}"
        return None
    if k == "dict":
        if sorted(a["items"]) != sorted(b["items"]):
            return "keys", f"{sorted(a['items'])} vs {sorted(b['items'])}"
        for n in sorted(a["items"]):
            d = compare(a["items"][n], b["items"][n], rtol, atol, tol_for, check_attrs, coord_rtol)
            if d:
                return d[0], f"key {n}: {d[1]}"
        return None
    if k == "ndarray":
        if a["dtype"] != b["dtype"]:
            return "dtype", f"{a['dtype']} vs {b['dtype']}"
        return _values_diff(a["values"], b["values"], rtol, atol)
    if k == "scalar":
        x, y = a["value"], b["value"]
        if isinstance(x, float) and isinstance(y, float):
            return _values_diff(np.array([x]), np.array([y]), rtol, atol)
        return None if (x == y and a["type"] == b["type"]) else ("value", f"{x!r} vs {y!r}")
    return None if a == b else ("value", f"{a.get('value')!r} vs {b.get('value')!r}")
