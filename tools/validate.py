#!/usr/bin/env python3-vt
"""Validate MANIFEST.json and every evidence file against the schemas in /root/.vp."""
import json, sys, glob, jsonschema
ok = True
man = json.load(open('/verif/MANIFEST.json'))
try:
    jsonschema.validate(man, json.load(open('/root/.vp/MANIFEST.schema.json')))
    print("MANIFEST.json valid")
except jsonschema.ValidationError as e:
    ok = False; print("MANIFEST.json INVALID:", e.message)
props = [json.loads(l)['id'] for l in open('/verif/properties.jsonl')]
claimed = [c['property_id'] for c in man['checks']]
na = [n['property_id'] for n in man.get('not_applicable', [])]
for p in props:
    if (p in claimed) == (p in na):
        ok = False; print("property", p, "must be exactly one of claimed / not_applicable")
es = json.load(open('/root/.vp/EVIDENCE.schema.json'))
for f in sorted(glob.glob('/verif/evidence/*.json')):
    try:
        jsonschema.validate(json.load(open(f)), es); print(f, "valid")
    except jsonschema.ValidationError as e:
        ok = False; print(f, "INVALID:", e.message)
sys.exit(0 if ok else 1)
