"""Clock seam: every place where the library reads the wall clock answers the simulated instant.

wavespectra reads a clock in three places: read_swan (time stamp for files without one),
read_spotter and read_datawell (a `date_created` attribute).  Simulated time never advances by
itself - nothing in the code under test waits or times out."""
import datetime as _dt

SIM_NOW = _dt.datetime(2000, 1, 1, 0, 0, 0)


class _PinnedDateTime(_dt.datetime):
    @classmethod
    def now(cls, tz=None):
        base = cls(SIM_NOW.year, SIM_NOW.month, SIM_NOW.day, SIM_NOW.hour, SIM_NOW.minute, SIM_NOW.second)
        return base.replace(tzinfo=tz) if tz is not None else base

    @classmethod
    def utcnow(cls):
        return cls.now()

    @classmethod
    def today(cls):
        return cls.now()


class _PinnedModule:
    datetime = _PinnedDateTime

    def __getattr__(self, name):
        return getattr(_dt, name)


def pin_clock():
    import importlib

    for modname in ("wavespectra.input.swan", "wavespectra.input.spotter", "wavespectra.input.datawell"):
        try:
            mod = importlib.import_module(modname)
        except Exception:
            continue
        cur = getattr(mod, "datetime", None)
        if cur is _dt:
            mod.datetime = _PinnedModule()
        elif cur is _dt.datetime:
            mod.datetime = _PinnedDateTime
