"""Baton scheduler: real threads, but the choice of who runs is never the OS's.

Actors are the *main* actor (dask's get_async loop, which blocks in SimQueue.get when no
completion is pending) and one *worker* actor per submitted batch.  Exactly one actor holds
the baton; all others are parked on their own semaphore.  Switch points: batch start, task
boundaries, sampled LINE events (sys.monitoring) inside $VERIF_REPO/wavespectra code, the C
yield points in specpart.c when the calling thread has released the GIL, worker exit, and the
main actor blocking on an empty completion queue.
"""
import os
import queue as _queue
import sys
import threading
from concurrent.futures import Executor, Future

TOOL_ID = 4
STEP_CAP = int(os.environ.get("VERIF_STEP_CAP", "20000"))


class SimDeadlock(RuntimeError):
    pass


class Actor:
    __slots__ = ("aid", "name", "sem", "state", "prio", "frozen", "thread", "lines", "in_task", "task_lines", "rv_code", "seen_codes", "rv_wait")

    def __init__(self, aid, name):
        self.aid = aid
        self.name = name
        self.sem = threading.Semaphore(0)
        self.state = "runnable"  # runnable | blocked | done
        self.prio = 0
        self.frozen = 0
        self.thread = None
        self.lines = 0
        self.in_task = None
        self.task_lines = 0
        self.rv_code = None
        self.seen_codes = set()
        self.rv_wait = None


# ---------------------------------------------------------------------------------------
# code objects of the tree under test (computed once per process, inherited by forks)
_CODES = None


def wavespectra_codes(repo):
    global _CODES
    if _CODES is not None:
        return _CODES
    import types

    root = os.path.join(repo, "wavespectra") + os.sep
    seen = {}

    def add(code):
        if id(code) in seen or not code.co_filename.startswith(root):
            return
        seen[id(code)] = code
        for c in code.co_consts:
            if isinstance(c, types.CodeType):
                add(c)

    def scan(obj, depth=0):
        if isinstance(obj, types.FunctionType):
            add(obj.__code__)
        elif isinstance(obj, (staticmethod, classmethod)):
            scan(obj.__func__, depth)
        elif isinstance(obj, property):
            for f in (obj.fget, obj.fset, obj.fdel):
                if f is not None:
                    scan(f, depth)
        elif isinstance(obj, type) and depth < 3:
            for v in list(vars(obj).values()):
                scan(v, depth + 1)
        elif hasattr(obj, "pyfunc") and isinstance(getattr(obj, "pyfunc", None), types.FunctionType):
            add(obj.pyfunc.__code__)

    for name, mod in sorted(sys.modules.items()):
        f = getattr(mod, "__file__", None)
        if mod is None or not f or not f.startswith(root):
            continue
        for v in list(vars(mod).values()):
            scan(v)
    _CODES = list(seen.values())
    return _CODES


class Sched:
    """One simulated compute.  cfg keys: K, strategy ('rw'|'pct'|'solo'), gap_mean, p_dup,
    p_stall, d (pct change points), expected_points."""

    def __init__(self, sim, cfg, repo):
        self.sim = sim
        self.cfg = cfg
        self.repo = repo
        self.K = int(cfg.get("K", 4))
        self.strategy = cfg.get("strategy", "rw")
        self.gap_mean = int(cfg.get("gap_mean", 40))
        self.p_dup = float(cfg.get("p_dup", 0.0))
        self.p_stall = float(cfg.get("p_stall", 0.0))
        self.actors = []
        self.idents = {}
        self.main = Actor(0, "main")
        self.actors.append(self.main)
        self.current = self.main
        self.idents[threading.get_ident()] = self.main
        self.qitems = []  # completed futures not yet consumed by main
        self.decisions = 0
        self.switches = 0
        self.capped = False
        self.countdown = self._draw_gap()
        self.bmean = int(cfg.get("bgap_mean", 2))
        self.bcount = self._draw_bgap()
        self.in_flight = 0
        self.max_in_flight = 0
        self.preempted_inside_task = 0
        self.points = 0
        self.pct_changes = []
        if self.strategy == "pct":
            exp = int(cfg.get("expected_points", 2000))
            self.pct_changes = sorted(
                1 + sim.choose(max(exp, 2), "pct-change") for _ in range(int(cfg.get("d", 2)))
            )
        self.threads = []
        self.pauses = {}
        self.active = False

    # -- decisions ---------------------------------------------------------------------
    def _draw_gap(self):
        if self.strategy == "solo" or self.gap_mean <= 0:
            return 1 << 60
        if self.strategy == "lockstep":
            return 1
        return 1 + self.sim.choose(2 * self.gap_mean, "gap")

    def _draw_bgap(self):
        if self.strategy == "solo":
            return 1 << 60
        return 1 + self.sim.choose(2 * self.bmean, "bgap")

    def _runnable(self):
        return [a for a in self.actors if a.state == "runnable"]

    def _pick(self, current, why, forced):
        """Choose the next actor to hold the baton.  `forced`: current cannot continue."""
        cands = self._runnable()
        if not forced and current.state != "runnable":
            forced = True
        others = [a for a in cands if a is not current]
        thawed = [a for a in others if a.frozen <= 0]
        for a in others:
            if a.frozen > 0:
                a.frozen -= 1
        if thawed:
            others = thawed
        elif not forced:
            return current          # everybody else is parked on purpose: only a forced pick wakes them
        if forced:
            if not others:
                raise SimDeadlock(f"no runnable actor at {why}")
            order = others
        else:
            if not others:
                return current
            order = [current] + others
        self.decisions += 1
        if self.decisions > STEP_CAP:
            self.capped = True
            self.sim.stats["step_cap_hit"] = 1
            return order[0]
        if self.strategy == "pct":
            best = max(order, key=lambda a: (a.prio, -a.aid))
            return best
        if self.strategy == "solo":
            return order[0]
        if self.strategy == "lockstep" and why.startswith("line:"):
            # workers that are inside a task body advance one line each in turn, so that two tasks
            # running the same kernel pass through the same statements side by side
            inside = sorted((a for a in order if a.in_task is not None and a is not self.main), key=lambda a: a.aid)
            if len(inside) >= 2 and current in inside:
                return inside[(inside.index(current) + 1) % len(inside)]
        k = self.sim.choose(len(order), why)
        return order[k]

    def _switch(self, current, nxt, why):
        if nxt is current:
            return
        self.switches += 1
        if current.in_task is not None and current.state == "runnable":
            if why.startswith("line:"):
                self.preempted_inside_task += 1
                self.sim.count("fault.preempt_py")
            elif why.startswith("c:"):
                self.preempted_inside_task += 1
                self.sim.count("fault.preempt_c")
        self.sim.event("switch", current.name, nxt.name, why)
        self.current = nxt
        nxt.sem.release()
        current.sem.acquire()

    def point(self, actor, why, force_decision=False):
        """A possible pre-emption point reached by the baton holder."""
        if not self.active or actor is not self.current:
            return
        self.points += 1
        if self.pct_changes and self.points >= self.pct_changes[0]:
            self.pct_changes.pop(0)
            actor.prio = -self.points  # lowest so far
            force_decision = True
        if not force_decision:
            if why.startswith("line:"):
                self.countdown -= 1
                if self.countdown > 0:
                    return
                self.countdown = self._draw_gap()
            else:
                self.bcount -= 1
                if self.bcount > 0:
                    return
                self.bcount = self._draw_bgap()
        if self.capped:
            return
        if self.p_stall and actor is not self.main and actor.frozen <= 0 and self.sim.flip(self.p_stall, "stall"):
            actor.frozen = 6 + self.sim.choose(20, "stall-len")
            self.sim.count("fault.stall")
            others = [a for a in self._runnable() if a is not actor]
            if others:
                nxt = self._pick(actor, why + ":stall", forced=True)
                self._switch(actor, nxt, why + ":stall")
                return
        nxt = self._pick(actor, why, forced=False)
        self._switch(actor, nxt, why)

    # -- pool --------------------------------------------------------------------------
    def submit(self, fn, *args, **kwargs):
        fut = Future()
        aid = len(self.actors)
        actor = Actor(aid, f"w{aid}")
        if self.strategy == "pct":
            actor.prio = 1 + self.sim.choose(1000, "prio")
        self.actors.append(actor)
        self.in_flight += 1
        self.max_in_flight = max(self.max_in_flight, self.in_flight)
        t = threading.Thread(target=self._worker, args=(actor, fut, fn, args, kwargs), daemon=True)
        actor.thread = t
        self.threads.append(t)
        t.start()
        self.sim.event("submit", actor.name, self._keys_of(args))
        self.point(self.main, "submit")
        return fut

    @staticmethod
    def _keys_of(args):
        try:
            return [str(a[0]) for a in args[0]]
        except Exception:
            return []

    def _worker(self, actor, fut, fn, args, kwargs):
        actor.sem.acquire()
        self.idents[threading.get_ident()] = actor
        try:
            res = self._run_batch(actor, fn, args, kwargs)
            actor.in_task = None
            fut.set_result(res)
        except BaseException as exc:  # noqa: BLE001 - delivered through the future like a real pool
            actor.in_task = None
            fut.set_exception(exc)
        finally:
            actor.state = "done"
            self.in_flight -= 1
            self.idents.pop(threading.get_ident(), None)
            try:
                nxt = self._pick(actor, "exit", forced=True)
            except SimDeadlock:
                nxt = self.main
                self.main.state = "runnable"
            self.sim.event("exit", actor.name, nxt.name)
            self.current = nxt
            nxt.sem.release()

    def _run_batch(self, actor, fn, args, kwargs):
        import dask.local as dl

        inner = fn
        # dask may wrap the batch function in contextvars' ctx.run
        if getattr(fn, "__name__", "") == "run" and args and args[0] is dl.batch_execute_tasks:
            inner, args = args[0], args[1:]
        if inner is not dl.batch_execute_tasks:
            actor.in_task = "opaque"
            return fn(*args, **kwargs)
        out = []
        for a in args[0]:
            key = a[0]
            actor.in_task = str(key)
            actor.task_lines = 0
            actor.seen_codes = set()
            self.sim.event("task", actor.name, str(key))
            self.sim.count("tasks")
            self.point(actor, "task-start")
            if self.p_dup and self.cfg.get("dup_concurrent") and self.sim.flip(self.p_dup / 2, "dupc"):
                # the same (pure) task runs on two workers at once, as after work stealing; one result is delivered
                r = self._dup_concurrent(actor, a)
                out.append(r)
                actor.in_task = None
                self.point(actor, "task-end")
                continue
            r = dl.execute_task(*a)
            if self.p_dup and self.sim.flip(self.p_dup, "dup"):
                # re-execution of a (pure) task; the second result is the one delivered
                self.sim.count("fault.duplicate")
                self.sim.event("dup", actor.name, str(key))
                self.point(actor, "dup-gap", force_decision=True)
                r = dl.execute_task(*a)
            out.append(r)
            actor.in_task = None
            self.point(actor, "task-end")
        return out

    def _dup_concurrent(self, actor, a):
        import dask.local as dl

        key = str(a[0])
        aid = len(self.actors)
        helper = Actor(aid, f"w{aid}d")
        helper.in_task = key
        if self.strategy == "pct":
            helper.prio = 1 + self.sim.choose(1000, "prio")
        self.actors.append(helper)
        box = {}
        self.sim.count("fault.duplicate_concurrent")
        self.sim.event("dupc", actor.name, helper.name, key)

        def body():
            helper.sem.acquire()
            self.idents[threading.get_ident()] = helper
            try:
                box["r"] = dl.execute_task(*a)
            finally:
                helper.in_task = None
                helper.state = "done"
                self.idents.pop(threading.get_ident(), None)
                if actor.state == "blocked":
                    actor.state = "runnable"
                try:
                    nxt = self._pick(helper, "exit", forced=True)
                except SimDeadlock:
                    nxt = actor
                self.current = nxt
                nxt.sem.release()

        t = threading.Thread(target=body, daemon=True)
        helper.thread = t
        self.threads.append(t)
        t.start()
        self.in_flight += 1
        self.max_in_flight = max(self.max_in_flight, self.in_flight)
        dl.execute_task(*a)                      # our own execution, interleaved with the helper's
        if helper.state != "done":
            actor.state = "blocked"
            nxt = self._pick(actor, "dup-wait", forced=True)
            self._switch(actor, nxt, "dup-wait")
        self.in_flight -= 1
        return box["r"]

    # -- completion queue --------------------------------------------------------------
    def q_put(self, item):
        self.qitems.append(item)
        if self.main.state == "blocked":
            self.main.state = "runnable"

    def q_get(self):
        main = self.main
        if not self.qitems:
            main.state = "blocked"
            nxt = self._pick(main, "main-wait", forced=True)
            self._switch(main, nxt, "main-wait")
            if not self.qitems:
                raise SimDeadlock("main resumed with an empty completion queue")
        else:
            self.point(main, "main-get")
        if len(self.qitems) > 1:
            self.sim.count("fault.reorder_window")
        return self.qitems.pop(0)

    # -- sys.monitoring / C hook -------------------------------------------------------
    def _line_cb(self, code, line):
        actor = self.idents.get(threading.get_ident())
        if actor is None or actor is self.main or actor is not self.current:
            return
        actor.lines += 1
        actor.task_lines += 1
        why = "line:%s:%d" % (code.co_filename.rsplit("/", 1)[-1], line)
        p = self.pauses.get(actor.aid)
        if p is not None and p[0] is code and not self.capped:
            p[1] -= 1
            if p[1] <= 0:
                del self.pauses[actor.aid]
                if p[2].state == "runnable" and p[2].in_task is not None:
                    actor.frozen = 100000
                    actor.rv_wait = (p[2], code)
                    self.sim.count("atomicity_pauses")
                    nxt = self._pick(actor, why + ":pause", forced=True)
                    self._switch(actor, nxt, why + ":pause")
                    actor.rv_wait = None
                    actor.frozen = 0
                    return
        if self.strategy == "lockstep" and actor.task_lines == 1 and not self.capped:
            # rendezvous: a task entering its kernel waits for another task to get there too, so that
            # both then walk through the same statements side by side (aligned start)
            waiting = [a for a in self._runnable() if a is not actor and a.frozen > 0 and a.in_task is not None and a.task_lines == 1]
            if waiting:
                for a in waiting:
                    a.frozen = 0
                self.sim.count("rendezvous_met")
            else:
                others = [a for a in self._runnable() if a is not actor]
                if others:
                    actor.frozen = 60
                    self.sim.count("rendezvous")
                    nxt = self._pick(actor, why + ":rv", forced=True)
                    self._switch(actor, nxt, why + ":rv")
                    return
        self.point(actor, why)

    def _start_cb(self, code, offset):
        """Function-entry rendezvous (lockstep strategy): a task entering a wavespectra function waits a
        little for another task to enter the *same* function, then both walk through it side by side.
        A function racing with itself on shared state is the typical Python-level race."""
        actor = self.idents.get(threading.get_ident())
        if actor is None or actor is self.main or actor is not self.current or actor.in_task is None or self.capped:
            return
        if id(code) in actor.seen_codes:
            return                      # only the first entry of each function within a task
        actor.seen_codes.add(id(code))
        parked = [a for a in self._runnable() if a is not actor and a.rv_code is not None and a.frozen > 0]
        waiting = [a for a in parked if a.rv_code is code]
        if waiting:
            self.sim.count("rendezvous_func_met")
            for a in waiting:
                a.rv_code = None
                a.frozen = 0
            # both are at the entry of the same function.  Atomicity probe: one of them will pause after a few
            # lines *inside* the function until the other has left it (check ... [peer runs the whole function] ... use)
            if self.sim.choose(2, "rv-probe"):
                peer = waiting[0]
                victim, other = (actor, peer) if self.sim.choose(2, "rv-victim") else (peer, actor)
                self.pauses[victim.aid] = [code, 1 + self.sim.choose(12, "rv-offset"), other]
            return
        if parked:
            return                      # somebody is already waiting elsewhere: keep going so that we can get there
        others = [a for a in self._runnable() if a is not actor and a.in_task is not None]
        if not others:
            return
        actor.rv_code = code
        actor.frozen = 100000      # until another task enters the same function, or nobody else can run
        self.sim.count("rendezvous_func")
        nxt = self._pick(actor, "enter:" + code.co_name + ":rv", forced=True)
        self._switch(actor, nxt, "enter:" + code.co_name + ":rv")
        actor.rv_code = None

    def _ret_cb(self, code, offset, retval):
        actor = self.idents.get(threading.get_ident())
        if actor is None or actor is not self.current:
            return
        for a in self.actors:
            if a.rv_wait is not None and a.rv_wait[0] is actor and a.rv_wait[1] is code:
                a.frozen = 0        # the peer has left the function: the paused task may go on
                self.sim.count("atomicity_pauses_released")

    def callback_point(self, what):
        """Python code entered from inside a task through a callback route (warnings.showwarning): if native code
        issued the warning, arbitrary Python - and with it a thread switch - happens in the middle of that native
        routine although it never releases the GIL itself.  Always a decision point."""
        actor = self.idents.get(threading.get_ident())
        if actor is None or actor is not self.current or actor.in_task is None:
            return
        self.sim.count("py_callbacks_in_task")
        self.point(actor, "callback:" + what, force_decision=True)

    def _c_cb(self, site):
        actor = self.idents.get(threading.get_ident())
        if actor is None or actor is not self.current:
            return
        self.sim.count("c_sites_gil_free")
        self.point(actor, "c:%d" % site, force_decision=True)

    def install(self):
        import dask.local as dl

        self._saved_queue = dl.Queue
        sched = self

        import queue as _queue

        claimed = []

        class SimQueue:
            """Completion queue of the simulated compute.  A queue created later from inside a running task belongs to a
            nested compute (a kernel or a map_blocks function that evaluates something lazy): that one runs inline in its
            task, as it does under dask's real threaded scheduler, on an ordinary queue."""

            def __init__(self):
                actor = sched.idents.get(threading.get_ident())
                if not claimed and (actor is None or actor is sched.main):
                    claimed.append(self)
                    self._real = None
                else:
                    self._real = _queue.Queue()
                    sched.sim.count("nested_computes_in_task")

            def put(self, item):
                if self._real is not None:
                    return self._real.put(item)
                sched.q_put(item)

            def get(self, block=True, timeout=None):
                if self._real is not None:
                    return self._real.get(block, timeout)
                return sched.q_get()

        dl.Queue = SimQueue
        mon = sys.monitoring
        try:
            mon.use_tool_id(TOOL_ID, "wsverif")
        except ValueError:
            pass
        mon.register_callback(TOOL_ID, mon.events.LINE, self._line_cb)
        self._codes = wavespectra_codes(self.repo) if self.strategy != "solo" else []
        ev = mon.events.LINE
        if self.strategy == "lockstep" and self.cfg.get("rv_funcs"):
            mon.register_callback(TOOL_ID, mon.events.PY_START, self._start_cb)
            mon.register_callback(TOOL_ID, mon.events.PY_RETURN, self._ret_cb)
            ev = ev | mon.events.PY_START | mon.events.PY_RETURN
        for c in self._codes:
            mon.set_local_events(TOOL_ID, c, ev)
        try:
            from wavespectra.partition import specpart

            self._specpart = specpart
            self._c0 = specpart._verif_stats()
            specpart._verif_set_hook(self._c_cb)
        except (ImportError, AttributeError):
            self._specpart = None
        self.active = True
        global ACTIVE_SCHED
        ACTIVE_SCHED = self

    def uninstall(self):
        global ACTIVE_SCHED
        ACTIVE_SCHED = None
        import dask.local as dl

        self.active = False
        dl.Queue = self._saved_queue
        mon = sys.monitoring
        for c in self._codes:
            mon.set_local_events(TOOL_ID, c, 0)
        mon.register_callback(TOOL_ID, mon.events.LINE, None)
        mon.register_callback(TOOL_ID, mon.events.PY_START, None)
        mon.register_callback(TOOL_ID, mon.events.PY_RETURN, None)
        if self._specpart is not None:
            self._specpart._verif_set_hook(None)
            held, free = self._specpart._verif_stats()
            self.sim.count("c_sites_gil_held", held - self._c0[0])
        self.sim.count("switches", self.switches)
        self.sim.count("decisions", self.decisions)
        self.sim.count("points", self.points)
        self.sim.count("preempt_inside_task", self.preempted_inside_task)
        self.sim.maxstat("max_tasks_in_flight", self.max_in_flight)
        self.sim.count("worker_lines", sum(a.lines for a in self.actors))


class SimPool(Executor):
    """The only pool the system sees (dask's `pool=` seam)."""

    def __init__(self, sched):
        self.sched = sched
        self._max_workers = sched.K

    def submit(self, fn, /, *args, **kwargs):
        return self.sched.submit(fn, *args, **kwargs)

    def shutdown(self, wait=True, **kw):
        pass


ACTIVE_SCHED = None


def showwarning_seam(message, category, filename, lineno, file=None, line=None):
    """Stands in for warnings.showwarning in runs whose warning filter lets warnings through ("always"):
    nothing is printed; reaching it from inside a task is a pre-emption point."""
    s = ACTIVE_SCHED
    if s is not None and s.active:
        s.callback_point("showwarning")


def simulated_compute(obj, sim, cfg, repo, dask_kwargs=None):
    """obj.compute() on the real dask threaded scheduler, driven by the baton scheduler."""
    sched = Sched(sim, cfg, repo)
    kw = dict(dask_kwargs or {})
    sched.install()
    try:
        return obj.compute(scheduler="threads", pool=SimPool(sched), **kw)
    finally:
        sched.uninstall()
