#!/bin/bash
# Run a check against a scratch copy of /repo's HEAD with a patch applied (sensitivity testing).
# usage: mutant_check.sh <patch.diff> <property> [check args...]
patch=$(readlink -f "$1"); prop=$2; shift 2
W=/dev/shm/ws-mut-$$
git -C /repo worktree add -q --detach $W HEAD || exit 2
( cd $W && git apply "$patch" ) || { git -C /repo worktree remove --force $W; echo "patch does not apply"; exit 2; }
cd /verif && VERIF_REPO=$W ./check $prop --no-evidence "$@"
rc=$?
git -C /repo worktree remove --force $W
exit $rc
