"""C18 (freshness) and C17 (purity): one history machine, two independent oracles.

A history is a list of steps over a small heap of slots (Datasets / DataArrays that persist, so
xarray's cached accessors persist too), argument objects that are kept and reused, direct calls
into the native watershed, reader helpers on in-memory native-convention datasets, and writers
into the simulated file system (optionally aborted by an injected I/O fault).

  C18: after every step that returns a value, the value must equal what the same call returns on
       a freshly constructed object with the same present contents in a pristine process.
  C17: before every step a deep snapshot of every slot and every argument object is taken; after
       the step - returned, raised, or deferred work computed under a simulated schedule - all
       that the step was not defined to change must be bit-for-bit identical.
"""
import copy
import json
import os
import types

import numpy as np

from simkit import compare as cmp
from simkit import data as D
from simkit import frozen as F
from simkit import ops as O
from simkit import purity as P
from simkit.core import Sim, digest

NAME = "histsim"
SCHEDULE_DEPENDENT = False

GRID_FLIPS = {  # same-product shapes: the C layer re-initialises only when the shape changes
    24: [(4, 6), (6, 4), (3, 8), (8, 3), (2, 12), (12, 2)],
    36: [(6, 6), (4, 9), (9, 4), (3, 12), (12, 3)],
    48: [(6, 8), (8, 6), (4, 12), (12, 4), (3, 16), (16, 3)],
    60: [(6, 10), (10, 6), (5, 12), (12, 5), (4, 15)],
}
BAD_KINDS = ["stats_unknown", "smooth_even", "split_bad", "bbox_overlap", "sel_method", "hp01_wstype",
             "fit_none", "ptm_coords", "names_len", "ptm_coords_close",
             "dir_stat_1d", "stats_noncallable", "stats_scalar", "split_dbad", "interp_like_bad", "fit_gauss_none", "stats_dict_unknown"]
WRITER_FMTS = ["swan", "swan_gz", "octopus", "json", "ww3", "netcdf", "funwave", "orcaflex"]
NATIVE_FMTS = ["ww3", "ncswan", "wwm"]


# =======================================================================================
# plan generation
# =======================================================================================
def _new_recipe(rng, known_shapes):
    layouts = [
        [["site", 0]], [["time", 0], ["site", 0]], [["time", 0], ["site", 0]], [["time", 0]], [],
        [["time", 0], ["lat", 0], ["lon", 0]], [["site", 0], ["time", 0]],
    ]
    dims = [[k, rng.choice([1, 2, 2, 3, 4])] for k, _ in rng.choice(layouts)]
    if known_shapes and rng.random() < 0.6:
        nk, nth = rng.choice(known_shapes)
        prod = nk * nth
        nf, nd = rng.choice([s for s in GRID_FLIPS.get(prod, [(nth, nk)]) if s != (nk, nth)] or [(nth, nk)])
    elif rng.random() < 0.6:
        nf, nd = rng.choice(GRID_FLIPS[rng.choice(sorted(GRID_FLIPS))])
    else:
        nf, nd = rng.randint(3, 10), rng.choice([0, 3, 4, 5, 6, 8, 9, 12])
    extra = {}
    if rng.random() < 0.12:
        extra["dir_dtype"] = rng.choice(["int64", "float32"])
    if rng.random() < 0.08:
        extra["freq_dtype"] = "float32"
    if rng.random() < 0.1:
        extra["site_labels"] = "str"
    if rng.random() < 0.08:
        extra["scalar_coord"] = True
    if rng.random() < 0.1:
        extra["exotic_attrs"] = True
    extra["depth"] = rng.choice(["shelf", "shelf", "deep", "mixed"])
    if rng.random() < 0.15:
        extra["origin_site"] = True
    if rng.random() < 0.15:
        extra["lat_desc"] = True
    if rng.random() < 0.2:
        extra["global_attrs"] = rng.choice(["cf", "acdd", "model"])
    if rng.random() < 0.3:
        extra["scalar_lonlat"] = True       # only takes effect for single-site datasets
    return {
        **extra,
        "dims": dims, "nf": nf, "nd": nd,
        "freq": {"kind": rng.choice(["log", "log", "lin"]), "f0": rng.choice([0.04, 0.05]), "r": rng.choice([1.1, 1.2, 1.3]), "df": 0.03},
        "dir": {"dir0": rng.choice([0.0, 0.0, 5.0]), "order": rng.choice(["asc", "asc", "asc", "desc", "rot", "shuf"]), "shift": 1, "seed": rng.randrange(100),
                "north360": rng.random() < 0.06},
        "dtype": rng.choice(["float64", "float64", "float64", "float32"]),
        "data": {"kind": rng.choice(["int_bumps", "int_bumps", "int_multi", "peaked", "random", "gapped"]), "seed": rng.randrange(10**6),
                 "zero_at": rng.choice([-1, -1, -1, 0, 1]), "nan_at": rng.choice([-1] * 8 + [0, 1]), "nan_bins": rng.choice([0] * 9 + [3])},
        "spec_last": rng.random() < 0.85,
        "dir_first": rng.random() < 0.1,
        "std_attrs": rng.random() < 0.4,
        "lon0": rng.choice([150.0, 150.0, 170.0, 350.0, -20.0]),
    }


def _gen_call(rng, meta, force_sel=None):
    recipe = meta["recipe"]
    has_site = any(k == "site" for k, _ in recipe["dims"])
    if meta["kind"] == "ds" and has_site and recipe.get("nd", 0) >= 0 and (force_sel or rng.random() < (0.6 if meta.get("via") else 0.25)):
        lon0, lat0 = recipe.get("lon0", 150.0), recipe.get("lat0", -30.0)
        n = rng.randint(1, 3)
        conv = rng.choice(["same", "same", "other"])
        lons = [round(lon0 + rng.uniform(0, 5), 2) for _ in range(n)]
        if conv == "other":
            lons = [(x - 360 if x > 180 else (x + 360 if x < 0 else x)) for x in lons]
        lats = [round(lat0 + rng.uniform(0, 5), 2) for _ in range(n)]
        method = rng.choice(["idw", "nearest", "bbox", "nearest", None, None] + (["bbox", "bbox"] if meta.get("via") else [])) if force_sel is None else None
        kw = {"method": method, "tolerance": rng.choice([2.0, 10.0, 10.0])}
        if method == "nearest" and rng.random() < 0.3:
            kw["unique"] = True
        if method is None:
            # exact matches only: query the sites' own coordinates (sometimes one twice, sometimes one that is absent)
            slon, slat = D.site_coords(recipe)
            pick = [rng.randrange(len(slon)) for _ in range(n)]
            if rng.random() < 0.5 and len(pick) > 1:
                pick[-1] = pick[0]
            lons = [float(slon[i]) for i in pick]
            lats = [float(slat[i]) for i in pick]
            if rng.random() < 0.25:
                lats[-1] = round(lats[-1] + 0.5, 3)
            extra = rng.choice(["none", "none", "unique", "missing", "exact"]) if force_sel != "plain" else "none"
            if extra == "unique":
                kw["unique"] = True
            elif extra == "missing":
                kw["missing"] = "ignore"
            elif extra == "exact":
                kw["exact"] = False
        return {"m": "sel", "via": "ds", "lons": lons, "lats": lats, "kw": kw, "as_array": rng.random() < 0.4}
    if meta.get("prop") == "C17" and not recipe["dims"] and recipe.get("nd", 0) >= 4 and meta["backing"] != "dask" and rng.random() < 0.3:
        kw = {"kind": rng.choice(["contourf", "contour", "pcolormesh"])}
        if rng.random() < 0.5:
            kw.update(rng.choice([{"as_period": True}, {"normalised": False}, {"logradius": False}, {"rmax": 0.3}]))
        op = {"m": "plot", "via": rng.choice(["da", "ds"]) if meta["kind"] == "ds" else "da", "kw": kw}
        if rng.random() < 0.5:
            op["subplot_kws"] = rng.choice([{"facecolor": "w"}, {"projection": "polar"}, {"theta_direction": -1, "facecolor": "0.9"}])
        return op
    others = [s for s, m in (meta.get("all") or {}).items() if m.get("kind") in ("ds", "da") and m["recipe"].get("nd", 0) >= 2 and m is not meta]
    if others and recipe.get("nd", 0) >= 2 and rng.random() < 0.12:
        return {"m": "interp_like", "via": "da" if meta["kind"] == "da" else rng.choice(["da", "ds"]), "other": rng.choice(others), "kw": {"maintain_m0": rng.random() < 0.7}}
    pool = rng.choices(["stats", "partition", "transform", "fit", "all"], [6, 5, 2, 1, 1])[0]
    op = O.gen_op(rng, recipe, pool)
    if meta["kind"] == "da":
        op["via"] = "da"
    if op["m"] == "interp" and rng.random() < 0.5:
        op["as_da"] = True   # new basis given as coordinate DataArrays (caller-owned objects)
    return op


def _gen_bad(rng, meta):
    recipe = meta["recipe"]
    kinds = list(BAD_KINDS)
    if recipe.get("nd", 0) < 3 or recipe["nf"] < 3:
        kinds = [k for k in kinds if k not in ("smooth_even", "bbox_overlap", "hp01_wstype", "ptm_coords")]
    if meta["kind"] != "ds" or not any(k == "site" for k, _ in recipe["dims"]):
        kinds = [k for k in kinds if k != "sel_method"]
    if not any(k == "time" and n >= 1 for k, n in recipe["dims"]):
        kinds = [k for k in kinds if k != "ptm_coords"]
    if not any(k == "site" for k, _ in recipe["dims"]) or recipe.get("nd", 0) < 3:
        kinds = [k for k in kinds if k != "ptm_coords_close"]
    if recipe.get("nd", 0) > 0:
        kinds = [k for k in kinds if k != "dir_stat_1d"]
    else:
        kinds = [k for k in kinds if k != "split_dbad"] + ["dir_stat_1d"] * 2
    if meta["kind"] != "ds" and "fit_gauss_none" in kinds:
        pass
    bad = {"k": rng.choice(kinds), "via": "da" if meta["kind"] == "da" else rng.choice(["da", "ds"])}
    if bad["k"] == "stats_dict_unknown":
        # names other packages use for the same quantities - not statistics of this library
        al = rng.sample(["hm0", "tz", "t02", "t01", "tm10", "mwd", "pwd", "pdir", "spr", "hsig", "tps", "hmean"], 2)
        bad["stats"] = {al[0]: {}, "tp": {}, al[1]: {}} if rng.random() < 0.5 else {"hs": {"tail": False}, al[0]: {}}
    if bad["k"] == "dir_stat_1d":
        bad["stat"] = rng.choice(["dm", "dspr", "dpm", "dp", "dpspr", "fdspr", "momd", "uss_x", "uss_y", "crsd"])
    return bad
    return {"k": rng.choice(kinds), "via": "da" if meta["kind"] == "da" else rng.choice(["da", "ds"])}


def _gen_edit(rng, meta):
    if meta["kind"] == "ds":
        kinds = ["efth_scale", "efth_scale", "efth_replace", "dir_assign", "freq_assign", "attrs_set", "values_poke", "add_var", "values_nudge", "values_item"]
    else:
        kinds = ["dir_assign", "dir_assign", "freq_assign", "values_poke", "attrs_set", "values_nudge", "values_item"]
    if meta["kind"] == "ds" and any(k == "site" for k, _ in meta["recipe"]["dims"]):
        kinds += ["lonlat_assign", "lonlat_assign"]
    if meta["recipe"].get("nd", 0) == 0:
        kinds = [k for k in kinds if k != "dir_assign"]
    if meta["backing"] == "dask":
        kinds = [k for k in kinds if k not in ("values_poke", "values_nudge", "values_item")]
    k = rng.choice(kinds)
    e = {"k": k}
    if k == "efth_scale":
        e["f"] = rng.choice([4.0, 0.25, 2.0])
    elif k == "efth_replace":
        e["seed"] = rng.randrange(10**6)
    elif k == "dir_assign":
        e["how"] = rng.choice(["half", "half", "shift", "third"])
    elif k == "freq_assign":
        e["f"] = rng.choice([1.1, 0.9, 2.0])
    elif k == "values_poke":
        e["f"] = rng.choice([3.0, 0.5])
    elif k == "values_nudge":
        # a few bins move by much less than any discretisation step (a re-calibration, a unit round-off)
        e["rel"] = rng.choice([1e-3, 1e-4, 1e-6])
        e["seed"] = rng.randrange(1000)
        e["share"] = rng.choice([0.05, 0.2, 0.5])
    elif k == "values_item":
        e["how"] = rng.choice(["scale", "scale", "zero"])
    elif k == "add_var":
        e["name"] = rng.choice(["crsd", "hs", "tm01", "crsd"])
    elif k == "lonlat_assign":
        e["how"] = rng.choice(["reverse", "shift", "values"])
    return e


def gen_plan(rng, tier="quick", prop="C18"):
    steps = []
    metas = {}
    known_shapes = []
    nslots = rng.randint(1, 3)
    files = {}

    def add_new(slot):
        recipe = _new_recipe(rng, known_shapes)
        kind = rng.choice(["ds", "ds", "da"])
        backing = rng.choices(["numpy", "dask", "view"], [7, 2, 1] if prop == "C18" else [5, 3, 2])[0]
        st = {"op": "new", "slot": slot, "kind": kind, "recipe": recipe, "backing": backing}
        has_ts = [k for k, _ in recipe["dims"]] in (["time", "site"], ["site", "time"]) and recipe["nd"] >= 2
        if backing == "numpy" and has_ts and rng.random() < 0.5:
            st["via"] = rng.choice(["ww3", "netcdf", "swan", "json"])
            recipe["dir_first"] = False
            recipe["spec_last"] = True
        if backing == "dask":
            recipe["spec_last"] = True  # blocks of the fresh object then have the layout of the history's blocks
            st["chunks"] = {k: rng.choice([1, 1, 2, -1]) for k, _ in recipe["dims"]}
            if rng.random() < 0.3:
                st["chunks"]["freq"] = rng.choice([2, 3])
            # keep simulated computes small: at most ~8 blocks
            sizes = dict((k, n) for k, n in recipe["dims"])
            sizes["freq"] = recipe["nf"]

            def nb(k):
                v = st["chunks"][k]
                return 1 if v == -1 else -(-sizes[k] // v)

            while int(np.prod([nb(k) for k in st["chunks"]])) > 8:
                k = max(sorted(st["chunks"]), key=nb)
                st["chunks"][k] = -1 if nb(k) <= 2 else -(-sizes[k] // 2)
        steps.append(st)
        metas[slot] = {"kind": kind, "recipe": recipe, "backing": backing, "prop": prop, "all": metas, "via": st.get("via")}
        if recipe["nd"] >= 2:
            known_shapes.append((recipe["nf"], recipe["nd"]))

    add_new(0)
    need_fresh = [False]
    length = rng.randint(3, 12 if tier == "quick" else 24)
    if prop == "C18":
        weights = {"call": 7, "bad": 1, "edit": 3.5, "native": 1.5, "new": 1.2, "reader": 1.0, "writer": 0.8, "readfile": 0.4, "construct": 0.6, "reconstruct": 0.25, "readsample": 1.2,
                   "churn": 0.09}
    else:
        weights = {"call": 6, "bad": 1.5, "edit": 0.8, "native": 0.3, "new": 1.0, "reader": 2.0, "writer": 3.0, "readfile": 0.8, "construct": 1.0, "reconstruct": 0.3, "readsample": 0.6}
    for _ in range(length):
        kind = rng.choices(list(weights), list(weights.values()))[0]
        wsl = [s for s, m in metas.items() if m["kind"] in ("ds", "da")]
        slot = rng.choice(wsl)
        meta = metas[slot]
        if kind == "new":
            s = len([m for m in metas]) if len(metas) < nslots else rng.choice(wsl)
            add_new(s)
        elif kind == "churn":
            # a long-running process: many short-lived objects on a few spectral grids were built, used and dropped
            # before; afterwards a new object (same sizes, another grid) is built and observed
            base = json.loads(json.dumps({k: v for k, v in meta["recipe"].items()}))
            base["dims"] = [["site", 2]] if rng.random() < 0.3 else []               # keep them small
            for k in ("site_labels", "scalar_coord", "scalar_lonlat", "time_unit", "time_irregular"):
                base.pop(k, None)
            names = [n for n in sorted(O.SIMPLE_STATS) if base.get("nd", 0) > 0 or n not in O.NEEDS_DIR]
            via_ = rng.choice(["da", "ds"])
            call = [{"m": n_, "via": via_} for n_ in rng.sample(names, min(2, len(names)))]      # a couple of statistics per object
            r2 = json.loads(json.dumps(base))
            r2["freq"] = dict(r2.get("freq", {}), f0=round(float(r2.get("freq", {}).get("f0", 0.04)) * 1.37, 4))
            r2["data"] = dict(r2["data"], seed=rng.randrange(10**6))
            steps.append({"op": "churn", "recipe": base, "n": 120, "call": call, "grids": rng.choice([1, 2, 3]),
                          "observe": r2, "fresh": 200})
            need_fresh[0] = True
        elif kind == "call":
            st = {"op": "call", "slot": slot, "call": _gen_call(rng, meta), "both": rng.random() < 0.4}
            if meta["backing"] == "dask" and rng.random() < 0.6:
                st["sim"] = {"K": rng.choice([2, 3, 4]), "strategy": "rw", "gap_mean": rng.choice([2, 5, 20]), "bgap_mean": 2,
                             "p_dup": rng.choice([0, 0.3, 0.6]), "p_stall": 0, "chunksize": 1, "optimize_graph": True}
            steps.append(st)
            r = meta["recipe"]
            c = st["call"]
            if c["m"] == "sel" and c["kw"].get("method") is None and len(c["kw"]) > 2 and rng.random() < 0.6:
                # greybox bias: a selection with non-default keywords is followed by a plain one of the same kind,
                # possibly on another object, so that anything the first call left behind becomes observable
                site_slots = [s for s, m in metas.items() if m["kind"] == "ds" and any(k == "site" for k, _ in m["recipe"]["dims"])]
                s2 = rng.choice(site_slots)
                steps.append({"op": "call", "slot": s2, "call": _gen_call(rng, metas[s2], force_sel="plain"), "both": False})
            if st["call"]["m"] in O.PARTITIONS and r["nd"] >= 2:
                known_shapes.append((r["nf"], r["nd"]))
                if meta["backing"] != "dask" and rng.random() < 0.3:
                    # the object is edited by much less than any discretisation step and the same call is made again
                    steps.append({"op": "edit", "slot": slot, "edit": {"k": "values_nudge", "rel": rng.choice([1e-3, 1e-4, 1e-6]), "seed": rng.randrange(1000), "share": rng.choice([0.05, 0.2, 0.5])}})
                    steps.append(dict(st))
        elif kind == "bad":
            steps.append({"op": "bad", "slot": slot, "bad": _gen_bad(rng, meta)})
            if rng.random() < 0.5:
                # a failing call followed by an observation, an in-place edit and another observation of the same object:
                # whatever the failure left enabled on the object is then seen against fresh contents
                probe = rng.choice([{"m": "hs", "via": "da"}, {"m": "tm01", "via": "da"}, {"m": "tp", "via": "da"}, {"m": "stats", "via": "da", "stats": ["hs", "tm02"], "kw": {}}])
                steps.append({"op": "call", "slot": slot, "call": dict(probe), "both": False})
                steps.append({"op": "edit", "slot": slot, "edit": _gen_edit(rng, meta)})
                steps.append({"op": "call", "slot": slot, "call": dict(probe), "both": False})
        elif kind == "edit":
            steps.append({"op": "edit", "slot": slot, "edit": _gen_edit(rng, meta)})
        elif kind == "native":
            if known_shapes and rng.random() < 0.7:
                nk, nth = rng.choice(known_shapes)
                shape = rng.choice([s for s in GRID_FLIPS.get(nk * nth, [(nth, nk)]) if s != (nk, nth)] or [(nth, nk)])
            else:
                shape = rng.choice(GRID_FLIPS[rng.choice(sorted(GRID_FLIPS))])
            steps.append({"op": "native", "shape": list(shape), "seed": rng.randrange(10**6), "ihmax": rng.choice([100, 100, 50, 200, 20]),
                          "flat": rng.random() < 0.15})
            if not steps[-1]["flat"] and rng.random() < 0.35:
                # ... and straight afterwards a marginally different version of the same spectrum
                steps.append(dict(steps[-1], nudge={"rel": rng.choice([1e-4, 1e-5, 1e-3]), "seed": rng.randrange(1000)}))
            known_shapes.append(tuple(shape))
        elif kind == "reader" and rng.random() < 0.25 and any(m["kind"] == "ds" and any(k == "site" for k, _ in m["recipe"]["dims"]) and m["recipe"]["nd"] >= 2 for m in metas.values()):
            # read_dataset on a dataset that already is in the wavespectra convention
            cands = [s for s, m in metas.items() if m["kind"] == "ds" and any(k == "site" for k, _ in m["recipe"]["dims"]) and m["recipe"]["nd"] >= 2]
            # ... or hand it to one of the model converters directly (a second conversion of converted data, or the wrong
            # converter): whatever they answer or raise, the caller's dataset stays as it was
            steps.append({"op": "reader", "slot": rng.choice(cands), "fn": rng.choice(["read_dataset", "from", "from"]), "as_fmt": rng.choice(NATIVE_FMTS)})
        elif kind == "reader":
            nat = [s for s, m in metas.items() if m["kind"] == "native"]
            if nat and rng.random() < 0.6:
                s = rng.choice(nat)
            else:
                s = max(metas) + 1
                fmt = rng.choice(NATIVE_FMTS)
                steps.append({"op": "mknative", "slot": s, "src_recipe": _new_recipe(rng, []), "fmt": fmt})
                metas[s] = {"kind": "native", "fmt": fmt}
            steps.append({"op": "reader", "slot": s, "fn": rng.choice(["read_dataset", "from"])})
        elif kind == "writer":
            if meta["kind"] != "ds":
                cands = [s for s in wsl if metas[s]["kind"] == "ds"]
                if not cands:
                    continue
                slot = rng.choice(cands)
            fmt = rng.choice(WRITER_FMTS)
            if fmt in ("funwave", "orcaflex") and rng.random() < 0.6:
                # Funwave and OrcaFlex take one spectrum (E(f,d); Funwave also E(f)): give them one, possibly with a few missing
                # bins, in either storage order of the spectral axes
                slot = max(metas) + 1
                r1 = _new_recipe(rng, known_shapes)
                r1.update(dims=rng.choice([[], [], [["time", 1]]]), nd=rng.choice([0, 0, 4, 6, 8]) if fmt == "funwave" else rng.choice([4, 6, 8, 12]),
                          dir_first=(fmt == "orcaflex" and rng.random() < 0.5), spec_last=True)
                r1["data"] = dict(r1["data"], nan_at=-1, zero_at=-1, nan_bins=rng.choice([0, 0, 2]))
                steps.append({"op": "new", "slot": slot, "kind": "ds", "recipe": r1, "backing": rng.choice(["numpy", "numpy", "view"])})
                metas[slot] = {"kind": "ds", "recipe": r1, "backing": steps[-1]["backing"], "prop": prop, "all": metas, "via": None}
            fname = f"f{rng.randrange(3)}." + {"swan": "spec", "swan_gz": "spec.gz", "octopus": "oct", "json": "json", "ww3": "nc", "netcdf": "nc", "funwave": "txt", "orcaflex": "ofx"}[fmt]
            st = {"op": "writer", "slot": slot, "fmt": fmt, "file": fname, "kw": {}}
            if fmt in ("swan", "swan_gz", "octopus") and rng.random() < 0.4:
                st["kw"]["ntime"] = rng.choice([1, 2])
            if fmt in ("swan", "swan_gz", "octopus") and rng.random() < 0.4:
                ns = dict((k, n) for k, n in metas[slot]["recipe"]["dims"]).get("site", 1)
                st["lonlat_args"] = [[round(150.0 + 0.5 * i, 2) for i in range(ns)], [round(-30.0 + 0.25 * i, 2) for i in range(ns)]]
                if rng.random() < 0.6:
                    st["drop_lonlat"] = True
                    if rng.random() < 0.35:
                        # a station whose position is not known
                        st["lonlat_args"][rng.randrange(2)][rng.randrange(ns)] = float("nan")
            if rng.random() < 0.35:
                # the writers' other options
                opts = {"swan": [{"id": "verif run"}, {"append": True}, {"compresslevel": 1}], "swan_gz": [{"compresslevel": 1}, {"id": "x"}],
                        "octopus": [{"site_id": "stn1"}, {"fcut": 0.1}, {"missing_val": -999}, {"compresslevel": 9}],
                        "json": [{"date_format": "%Y%m%dT%H%M%S"}, {"mode": "w"}], "funwave": [{"clip": True}],
                        "netcdf": [{"time_encoding": {"units": "hours since 2000-01-01"}}, {"specname": "efth"}]}.get(fmt)
                if opts:
                    st["kw"].update(rng.choice(opts))
            if prop == "C17" and rng.random() < 0.6:
                st["fault"] = {"kind": rng.choice(["eio", "eio", "enospc", "torn", "close_err", "short"]), "k": rng.choice([1, 1, 2, 3, 5, 8, 13, 21, 34, 55, 89])}
            steps.append(st)
            files[fname] = fmt
            if prop == "C18" and metas[slot]["backing"] != "dask" and fmt not in ("orcaflex", "funwave") and rng.random() < 0.5:
                # the caller keeps working with the dataset: in-place edit, then the same export again
                steps.append({"op": "edit", "slot": slot, "edit": dict({"k": rng.choice(["values_poke", "values_item", "values_nudge"]), "f": 0.5, "how": "scale", "rel": 1e-3, "seed": 1, "share": 0.5})})
                steps.append(dict(st, file=("again_" + fname) if rng.random() < 0.6 else fname))
                files[steps[-1]["file"]] = fmt
        elif kind == "readsample":
            if rng.random() < 0.45:
                steps.append({"op": "readsample", "gen": "triaxys", "nf": rng.choice([28, 40, 56, 57, 58, 63, 111]), "df": 0.01,
                              "ddir": rng.choice([30.0, 45.0, 90.0]), "seed": rng.randrange(50), "directional": rng.random() < 0.7})
            else:
                reader, fname, kw = rng.choice(SAMPLES)
                if rng.random() < (0.5 if prop == "C17" else 0.1):
                    reader, fname, kw = rng.choice([x for x in SAMPLES if isinstance(x[1], list)])     # file names in a list the caller owns
                steps.append({"op": "readsample", "reader": reader, "file": fname, "kw": kw, "rel": rng.random() < 0.3})
                if rng.random() < 0.25:
                    # the same file again (later calls in the same process must answer the same)
                    steps.append(dict(steps[-1], rel=rng.random() < 0.3))
        elif kind == "construct":
            nf = rng.randint(4, 9)
            nd = rng.choice([4, 6, 8, 12])
            fname = rng.choice(["jonswap", "pierson_moskowitz", "gaussian", "tma"])
            fk = {"freq": [round(0.04 * 1.2 ** i, 5) for i in range(nf)], "fp": rng.choice([0.06, 0.08, 0.1]), "hs": rng.choice([0.5, 2.0, 4.5])}
            if fname == "jonswap":
                fk["gamma"] = rng.choice([1.0, 2.0, 3.3])
            elif fname == "gaussian":
                fk["gw"] = rng.choice([0.01, 0.02])
            elif fname == "tma":
                fk["dep"] = rng.choice([10.0, 40.0])
            dk = {"dir": [float(x) for x in np.arange(0, 360, 360 / nd)], "dm": rng.choice([0.0, 45.0, 200.0, 350.0]), "dspr": rng.choice([10.0, 25.0, 40.0])}
            dname = "cartwright"
            nsite = rng.choice([2, 3])
            as_da = rng.random() < 0.35        # parameters given per site as DataArrays
            if as_da:
                fk["hs"] = {"__da__": [round(rng.uniform(0.5, 5.0), 2) for _ in range(nsite)]}
                fk["fp"] = {"__da__": [rng.choice([0.06, 0.08, 0.1]) for _ in range(nsite)]}
                dk["dm"] = {"__da__": [rng.choice([10.0, 45.0, 200.0, 350.0]) for _ in range(nsite)]}
            if rng.random() < 0.25:
                # frequency-dependent spreading of Bunney et al. (2014)
                dname = "asymmetric"
                dk.update({"freq": list(fk["freq"]), "dpm": rng.choice([30.0, 190.0, 340.0]), "dpspr": rng.choice([8.0, 20.0]), "fm": rng.choice([0.09, 0.12]), "fp": rng.choice([0.06, 0.08])})
                if dk["dm"] == 0.0:
                    dk["dm"] = 20.0
                if as_da:
                    dk["dpm"] = {"__da__": [rng.choice([30.0, 190.0, 340.0]) for _ in range(nsite)]}
                    for k in ("dspr", "dpspr", "fm", "fp"):
                        dk[k] = {"__da__": [dk[k]] * nsite}
            if rng.random() < 0.2 and fname in ("jonswap", "gaussian"):
                # shape chosen per site by a boolean array
                fname = "conditional"
                fk.update({"gamma": 2.0, "gw": 0.02, "cond": {"__da__": [bool(rng.getrandbits(1)) for _ in range(nsite)], "bool": True}})
                if as_da is False:
                    fk["hs"] = {"__da__": [round(rng.uniform(0.5, 5.0), 2) for _ in range(nsite)]}
                    fk["fp"] = {"__da__": [rng.choice([0.06, 0.08, 0.1]) for _ in range(nsite)]}
            steps.append({"op": "construct", "freq_name": fname, "dir_name": dname, "fk": fk, "dk": dk, "defaults": rng.random() < 0.15})
        elif kind == "reconstruct":
            cands = [s for s in wsl if metas[s]["kind"] == "ds" and metas[s]["recipe"]["nd"] >= 3 and metas[s]["backing"] != "dask"
                     and int(np.prod([n for _, n in metas[s]["recipe"]["dims"]] or [1])) <= 3 and metas[s]["recipe"]["nf"] * metas[s]["recipe"]["nd"] <= 64]
            if cands:
                ud = [None, None, ["alpha", "gamma"], ["alpha", "dpspr"], ["gamma"]]
                first = {"op": "reconstruct", "slot": rng.choice(cands), "parts": rng.choice([1, 2]), "method": rng.choice(["ptm3", "ptm3", "ptm1", "ptm2"]), "use_defaults": rng.choice(ud)}
                r_ = rng.random()
                if r_ < 0.2:
                    first["freq_name"] = [rng.choice(["jonswap", "gaussian", "pierson_moskowitz"]) for _ in range(first["parts"])]
                elif r_ < 0.3:
                    first["dir_name"] = ["asymmetric"] * first["parts"]
                elif r_ < 0.4:
                    first["method_combine"] = "sum"
                elif r_ < 0.47:
                    first["method"] = "ptm4"                          # not a supported method: must be refused
                elif r_ < 0.54:
                    first["freq_name"] = ["jonswap"] * (first["parts"] + 1)      # wrong length: must be refused
                steps.append(first)
                if rng.random() < 0.5:
                    # the same entry point again with other options (on the same or another dataset)
                    steps.append(dict(first, slot=rng.choice(cands), use_defaults=rng.choice([u for u in ud if u != first["use_defaults"]])))
        elif kind == "readfile" and files:
            fname = rng.choice(sorted(files))
            steps.append({"op": "readfile", "file": fname, "fmt": files[fname]})
    # always end with an observed call on some slot (the history is there to be observed)
    wsl = [s for s, m in metas.items() if m["kind"] in ("ds", "da")]
    slot = rng.choice(wsl)
    steps.append({"op": "call", "slot": slot, "call": _gen_call(rng, metas[slot]), "both": True})
    plan = {"engine": NAME, "steps": steps, "bufsize": rng.choice([64, 256, 1024, 8192])}
    if need_fresh[0]:
        # the outcome may depend on which addresses the allocator reuses: run (and replay) in a newly started interpreter
        plan["fresh_process"] = True
    return plan


def shape(plan):
    parts = []
    for st in plan["steps"]:
        op = st["op"]
        if op == "churn":
            parts.append(f"churn:{st['n']}:{st.get('grids')}:{'+'.join(c['m'] for c in st['call'])}")
        elif op == "new":
            parts.append(f"new{st['slot']}:{st['kind']}:{st['backing']}{':via-' + st['via'] if st.get('via') else ''}:{D.describe(st['recipe'])}")
        elif op == "call":
            parts.append(f"call{st['slot']}:{O.op_label(st['call'])}:{st['call'].get('via')}{':sim' if st.get('sim') else ''}{':like' + str(st['call'].get('other')) if st['call']['m'] == 'interp_like' else ''}{':asda' if st['call'].get('as_da') else ''}")
        elif op == "bad":
            parts.append(f"bad{st['slot']}:{st['bad']['k']}")
        elif op == "edit":
            parts.append(f"edit{st['slot']}:{st['edit']['k']}:{st['edit'].get('how', st['edit'].get('f', ''))}")
        elif op == "native":
            parts.append(f"native:{st['shape']}:{st['ihmax']}{':flat' if st.get('flat') else ''}{':nudged' if st.get('nudge') else ''}")
        elif op == "readsample":
            parts.append(f"readsample:{st.get('reader', 'triaxys-gen')}:{st.get('file', (st.get('nf'), st.get('ddir'), st.get('directional')))}")
        elif op == "construct":
            parts.append(f"construct:{st['freq_name']}:{len(st['fk']['freq'])}x{len(st['dk']['dir'])}:{st.get('defaults')}")
        elif op == "reconstruct":
            parts.append(f"reconstruct{st['slot']}:{st['parts']}:{st['method']}:{st.get('use_defaults')}:{st.get('freq_name')}:{st.get('dir_name')}:{st.get('method_combine')}")
        elif op == "writer":
            parts.append(f"write{st['slot']}:{st['fmt']}:{st['file']}:{st.get('fault')}")
        else:
            parts.append(f"{op}:{st.get('slot', st.get('file'))}:{st.get('fmt', st.get('fn', ''))}")
    return " ; ".join(parts)


# =======================================================================================
# execution
# =======================================================================================
class Slot:
    def __init__(self, kind, obj, aux=None, src=None, backing="numpy", fmt=None, keep=None):
        self.kind, self.obj, self.aux, self.src, self.backing, self.fmt = kind, obj, aux, src, backing, fmt
        self.keep = keep  # objects that must stay alive (guarded buffers)


class ArgStore:
    """Argument objects that are kept and reused across steps (the caller owns them)."""

    def __init__(self):
        self.objs = {}

    def get(self, kind, value):
        key = kind + json.dumps(value, sort_keys=True)
        if key not in self.objs:
            if kind == "array":
                self.objs[key] = np.asarray(value, dtype=float)
            elif kind.startswith("da1d:"):  # coordinate DataArray with its own index, no attributes
                import xarray as xr

                name = kind.split(":")[1]
                vals = np.asarray(value, dtype=float)
                self.objs[key] = xr.DataArray(vals, dims=(name,), coords={name: vals}, name=name)
            elif kind == "colview":  # a column view into a caller-owned (N, 2) points buffer
                buf = np.zeros((len(value), 2))
                buf[:, 0] = value
                buf[:, 1] = -77.0
                self.objs[key] = buf[:, 0]
            else:
                self.objs[key] = copy.deepcopy(value)
        return self.objs[key]


def _make_view_backed(ds):
    """Re-home efth on a strided view into a larger caller-owned buffer with guard zones."""
    import xarray as xr

    a = ds["efth"].values
    guard = 16
    big = np.full(a.size * 2 + 2 * guard, -12345.0, dtype=a.dtype)
    view = big[guard: guard + 2 * a.size: 2].reshape(a.shape)
    view[...] = a
    ds2 = ds.copy()
    ds2["efth"] = xr.Variable(ds["efth"].dims, view, attrs=dict(ds["efth"].attrs))
    assert np.shares_memory(ds2["efth"].values, big)
    return ds2, big


def _via_roundtrip(ds, via, scratch):
    """The object a user actually holds: what the library's reader returns for a file the library wrote."""
    import wavespectra as ws

    os.makedirs(scratch, exist_ok=True)
    path = os.path.join(scratch, f"via_{via}_{abs(hash(str(ds.sizes))) % 10**6}")
    if via == "ww3":
        ds.spec.to_ww3(path + ".nc")
        with ws.read_ww3(path + ".nc") as d:
            out = d.load()
    elif via == "netcdf":
        ds.spec.to_netcdf(path + ".nc", ncformat="NETCDF3_64BIT", compress=False, packed=False)
        with ws.read_netcdf(path + ".nc") as d:
            out = d.load()
    elif via == "swan":
        ds.spec.to_swan(path + ".spec")
        out = ws.read_swan(path + ".spec", as_site=True)
    else:
        ds.spec.to_json(path + ".json")
        out = ws.read_json(path + ".json")
    for v in ("wspd", "wdir", "dpt"):
        if v not in out and v in ds and set(ds[v].dims) <= set(out.dims):
            out[v] = (ds[v].dims, ds[v].values)
    return out


def build_slot(st, scratch=None):
    import dask  # noqa

    ds = D.make_dataset(st["recipe"])
    if st.get("via") and scratch:
        try:
            ds = _via_roundtrip(ds, st["via"], scratch)
        except Exception:
            pass          # layout not writable in that format: keep the constructed dataset
    keep = None
    backing = st["backing"]
    src = None
    if backing == "view":
        ds, keep = _make_view_backed(ds)
    if backing == "dask":
        src = ds
        sizes = dict(ds["efth"].sizes)
        ch = {k: (min(v, sizes[k]) if v != -1 else -1) for k, v in st.get("chunks", {}).items() if k in sizes}
        ds = ds.chunk(ch)
    if st["kind"] == "ds":
        return Slot("ds", ds, None, src, backing, keep=keep)
    aux = ds[[v for v in ("wspd", "wdir", "dpt") if v in ds]]
    return Slot("da", ds["efth"], aux, src, backing, keep=keep)


def make_native(recipe, fmt):
    """In-memory dataset in a model's native convention (what xr.open_dataset would give)."""
    import xarray as xr

    r = dict(recipe)
    r["dims"] = [["time", max(1, dict(recipe["dims"]).get("time", 2))], ["site", max(1, dict(recipe["dims"]).get("site", 2))]]
    r["nd"] = max(3, recipe.get("nd", 0) or 4)
    r["spec_last"] = True
    r["dir_first"] = False
    for k in ("scalar_lonlat", "site_labels", "dir_dtype", "freq_dtype", "scalar_coord", "exotic_attrs", "lat_desc"):
        r.pop(k, None)
    r["dtype"] = "float32" if recipe.get("data", {}).get("seed", 0) % 2 else "float64"   # model output is often single precision
    ds = D.make_dataset(r)
    e = ds["efth"].values
    t, s = ds["time"].values, ds["site"].values
    f, d = ds["freq"].values, ds["dir"].values
    nt, ns = len(t), len(s)
    lon2 = np.repeat(ds["lon"].values[None, :], nt, 0)
    lat2 = np.repeat(ds["lat"].values[None, :], nt, 0)
    if fmt == "ww3":
        return xr.Dataset(
            {"efth": (("time", "station", "frequency", "direction"), e * (180 / np.pi)),
             "longitude": (("time", "station"), lon2), "latitude": (("time", "station"), lat2),
             "wnd": (("time", "station"), ds["wspd"].values), "wnddir": (("time", "station"), ds["wdir"].values),
             "dpt": (("time", "station"), ds["dpt"].values)},
            coords={"time": t, "station": s, "frequency": f, "direction": (d + 180) % 360},
        )
    if fmt == "ncswan":
        return xr.Dataset(
            {"density": (("time", "points", "frequency", "direction"), e * (180 / np.pi)),
             "longitude": (("points",), ds["lon"].values), "latitude": (("points",), ds["lat"].values),
             "depth": (("time", "points"), ds["dpt"].values),
             "xwnd": (("time", "points"), ds["wspd"].values * 0.6), "ywnd": (("time", "points"), ds["wspd"].values * 0.8)},
            coords={"time": t, "frequency": f, "direction": np.deg2rad(d)},
        )
    if fmt == "wwm":
        return xr.Dataset(
            {"AC": (("ocean_time", "nbstation", "nfreq", "ndir"), e),
             "SPSIG": (("nfreq",), 2 * np.pi * f), "SPDIR": (("ndir",), np.deg2rad(d)),
             "lon": (("nbstation",), ds["lon"].values), "lat": (("nbstation",), ds["lat"].values),
             "DEP": (("ocean_time", "nbstation"), ds["dpt"].values),
             "Uwind": (("ocean_time", "nbstation"), ds["wspd"].values * 0.6), "Vwind": (("ocean_time", "nbstation"), ds["wspd"].values * 0.8)},
            coords={"ocean_time": t},
        )
    raise ValueError(fmt)


def call_reader(nat, fmt, fn):
    if fn == "read_dataset":
        from wavespectra import read_dataset

        return read_dataset(nat)
    if fmt == "ww3":
        from wavespectra.input.ww3 import from_ww3 as f
    elif fmt == "ncswan":
        from wavespectra.input.ncswan import from_ncswan as f
    else:
        from wavespectra.input.wwm import from_wwm as f
    return f(nat)


def native_array(shape, seed, flat=False, nudge=None):
    if flat:
        return np.full(tuple(shape), float(seed % 7), dtype="float32")   # flat spectrum: the watershed's early-return path
    rng = np.random.default_rng(seed)
    a = D._bumps(rng, shape[0], shape[1], True, 1)[0].astype("float32")
    if nudge:
        # the same spectrum up to changes far below any discretisation step (equal-valued bins are no longer exactly equal)
        r2 = np.random.default_rng(nudge["seed"])
        mask = r2.random(a.shape) < 0.5
        sign = np.where(r2.random(a.shape) < 0.5, -1.0, 1.0)
        a = np.where(mask, a * (1.0 + nudge["rel"] * sign), a).astype("float32")
    return a


def _mat(v):
    """JSON form of a construct_partition keyword value -> the object the caller passes."""
    if isinstance(v, dict) and "__da__" in v:
        import xarray as xr

        vals = np.asarray(v["__da__"], dtype=bool if v.get("bool") else float)
        return xr.DataArray(vals, dims=(v.get("dim", "site"),), coords={v.get("dim", "site"): np.arange(1, len(vals) + 1)})
    if isinstance(v, list):
        return np.asarray(v, dtype=float)
    return v


def construct_kwargs(store, st):
    """Caller-owned keyword dictionaries (with caller-owned arrays inside) for construct_partition."""
    fk = store.get("dict", {"__construct_f": st["fk"]})
    dk = store.get("dict", {"__construct_d": st["dk"]})
    if "freq" not in fk:
        src = fk.pop("__construct_f")
        fk.update({k: _mat(v) for k, v in src.items()})
    if "dir" not in dk:
        src = dk.pop("__construct_d")
        dk.update({k: _mat(v) for k, v in src.items()})
    return fk, dk


def run_construct(st, fk, dk):
    from wavespectra.construct import construct_partition

    if st.get("defaults"):
        return construct_partition(st["freq_name"], st["dir_name"], freq_kwargs=fk, dir_kwargs=dk), construct_partition.__defaults__
    return construct_partition(st["freq_name"], st["dir_name"], fk, dk)


def run_reconstruct(ds, st, args=None):
    from wavespectra.construct import partition_and_reconstruct

    kw = {}
    if st.get("use_defaults") is not None:
        kw["use_defaults"] = list(st["use_defaults"])
    for k in ("freq_name", "dir_name", "method_combine"):
        if st.get(k) is not None:
            kw[k] = list(st[k]) if isinstance(st[k], list) else st[k]
    if args:
        kw.update(args)         # the caller's own list objects
    return partition_and_reconstruct(ds, parts=st["parts"], partition_method=st["method"], **kw)


def call_args(store, call):
    """Caller-owned argument objects for a call descriptor (persistent across steps)."""
    args = {}
    m = call["m"]
    if m == "stats":
        if call.get("stats_kw"):
            args["stats"] = store.get("dict", {n: dict(call["stats_kw"].get(n, {})) for n in call["stats"]})
        else:
            args["stats"] = store.get("list", list(call["stats"]))
        if "names" in call:
            args["names"] = store.get("list", list(call["names"]))
    elif m == "bbox":
        args["bboxes"] = store.get("list", [dict(b) for b in call["bboxes"]])
    elif m == "sel":
        kind = "colview" if call.get("as_array") else "list"
        args["lons"] = store.get(kind, list(call["lons"]))
        args["lats"] = store.get("array" if call.get("as_array") else "list", list(call["lats"]))

    elif m == "plot" and call.get("subplot_kws"):
        args["subplot_kws"] = store.get("dict", dict(call["subplot_kws"]))
    elif m == "interp":
        kind = "da1d:freq" if call.get("as_da") else "array"
        if call.get("freq") is not None:
            args["freq"] = store.get(kind, list(call["freq"]))
        kind = "da1d:dir" if call.get("as_da") else "array"
        if call.get("dir") is not None:
            args["dir"] = store.get(kind, list(call["dir"]))
    return args


def run_bad(obj, aux, bad, extra=None):
    """Calls that must raise (on this tree).  `extra` keeps caller-owned argument objects alive across steps."""
    import xarray as xr

    k = bad["k"]
    spec = obj.spec if (isinstance(obj, xr.DataArray) or bad.get("via") == "ds") else obj["efth"].spec
    w = aux if aux is not None else obj
    if k == "stats_unknown":
        return spec.stats(["hs", "nope", "tp"])
    if k == "smooth_even":
        return spec.smooth(freq_window=2, dir_window=3)
    if k == "split_bad":
        return spec.split(fmin=0.2, fmax=0.1)
    if k == "bbox_overlap":
        return spec.partition.bbox([{"fmin": 0.0, "fmax": 0.3, "dmin": 0, "dmax": 200}, {"fmin": 0.1, "fmax": 0.5, "dmin": 100, "dmax": 300}])
    if k == "sel_method":
        return obj.spec.sel([150.0], [-30.0], method="cubic")
    if k == "hp01_wstype":
        return spec.partition.hp01(wstype=7)
    if k == "fit_none":
        return spec.fit_jonswap(spectra=False, params=False)
    if k == "ptm_coords":
        wspd = w["wspd"]
        wspd2 = wspd.assign_coords(time=wspd["time"] + np.timedelta64(1, "h"))
        return spec.partition.ptm1(wspd=wspd2, wdir=w["wdir"], dpt=w["dpt"])
    if k == "names_len":
        return spec.stats(["hs", "tp"], names=["a"])
    if k == "dir_stat_1d":       # a directional statistic asked of frequency spectra
        st = bad.get("stat", "dm")
        if st == "crsd":
            return spec.crsd(theta=90.0)
        return getattr(spec, st)()
    if k == "stats_dict_unknown":
        d_ = (extra if extra is not None else {}).setdefault("statsdict:" + json.dumps(bad["stats"], sort_keys=True), {k_: dict(v_) for k_, v_ in bad["stats"].items()})
        return spec.stats(d_)
    if k == "stats_noncallable":
        return spec.stats(["hs", "freq"])
    if k == "stats_scalar":
        return spec.stats("hs")
    if k == "split_dbad":
        return spec.split(dmin=200.0, dmax=100.0)
    if k == "interp_like_bad":
        return spec.interp_like(None)
    if k == "fit_gauss_none":
        return spec.fit_gaussian(spectra=False, params=False)
    if k == "ptm_coords_close":
        # wind/depth arrays from different sources: site coordinates agree to single precision only
        if extra is None or "dpt32" not in extra:
            dpt = w["dpt"]
            d32 = dpt.assign_coords(lon=("site", dpt["lon"].values.astype("float32").astype("float64") + 1e-9),
                                    lat=("site", dpt["lat"].values.astype("float32").astype("float64")))
            if extra is not None:
                extra["dpt32"] = d32
        else:
            d32 = extra["dpt32"]
        return spec.partition.ptm1(wspd=w["wspd"], wdir=w["wdir"], dpt=d32)
    raise AssertionError(k)


def apply_edit(slot, e):
    obj = slot.obj
    k = e["k"]
    if k == "efth_scale":
        obj["efth"] = e["f"] * obj["efth"]
    elif k == "efth_replace":
        rng = np.random.default_rng(e["seed"])
        v = obj["efth"]
        new = np.round(rng.uniform(0, 50, v.shape)).astype(v.dtype)
        if slot.backing == "dask":
            import dask.array as da

            obj["efth"] = v.copy(data=da.from_array(new, chunks=v.data.chunks))
        else:
            obj["efth"] = v.copy(data=new)
    elif k == "dir_assign":
        d = obj["dir"].values
        if e["how"] == "half":
            new = d / 2
        elif e["how"] == "third":
            new = d / 3
        else:
            new = (d + 7.0) % 360
        obj["dir"] = new
    elif k == "freq_assign":
        obj["freq"] = obj["freq"].values * e["f"]
    elif k == "attrs_set":
        obj.attrs["verif_note"] = "edited"
        if slot.kind == "ds":
            obj["efth"].attrs["units"] = "m2 s deg-1 (edited)"
    elif k == "lonlat_assign":
        lon, lat = obj["lon"].values, obj["lat"].values
        if e["how"] == "reverse":
            obj["lon"] = ("site", lon[::-1].copy())
            obj["lat"] = ("site", lat[::-1].copy())
        elif e["how"] == "shift":
            obj["lon"] = ("site", lon + 1.5)
        else:
            obj["lon"].values[...] = lon + 0.75       # in-place write into the coordinate's values
    elif k == "add_var":
        # a statistic stored next to the spectra under its own name (what users do before writing files)
        obj[e["name"]] = getattr(obj["efth"].spec, e["name"])()
    elif k == "values_poke":
        target = obj["efth"] if slot.kind == "ds" else obj
        target.values[...] = target.values * np.asarray(e["f"], dtype=target.dtype)
    elif k == "values_nudge":
        target = obj["efth"] if slot.kind == "ds" else obj
        rng = np.random.default_rng(e["seed"])
        v = target.values
        mask = rng.random(v.shape) < e["share"]
        sign = np.where(rng.random(v.shape) < 0.5, -1.0, 1.0)
        v[mask] = (v * (1.0 + e["rel"] * sign)).astype(v.dtype)[mask]
    elif k == "values_item":
        # xarray item assignment on the first element of the leading dimension: the arrays change, no variable is replaced
        target = obj["efth"] if slot.kind == "ds" else obj
        lead = [d for d in target.dims if d not in ("freq", "dir")]
        idx = {lead[0]: 0} if lead else {"freq": 0}
        target[idx] = 0.0 if e["how"] == "zero" else target[idx] * np.asarray(0.5, dtype=target.dtype)
    else:
        raise AssertionError(k)


def do_write(ds, fmt, path, kw):
    kw = dict(kw)
    if fmt in ("swan", "swan_gz"):
        return ds.spec.to_swan(path, **kw)
    if fmt == "octopus":
        return ds.spec.to_octopus(path, **kw)
    if fmt == "json":
        return ds.spec.to_json(path, **kw)
    if fmt == "ww3":
        return ds.spec.to_ww3(path)
    if fmt == "netcdf":
        return ds.spec.to_netcdf(path, ncformat="NETCDF3_64BIT", compress=False, packed=False, **kw)
    if fmt == "funwave":
        return ds.spec.to_funwave(path, **dict({"clip": False}, **kw))
    if fmt == "orcaflex":
        import types

        model = types.SimpleNamespace(environment=types.SimpleNamespace())   # stands in for an OrcFxAPI model
        return ds.spec.to_orcaflex(model)
    raise ValueError(fmt)


def do_read(fmt, path):
    import wavespectra as ws

    if fmt in ("swan", "swan_gz"):
        return ws.read_swan(path)
    if fmt == "octopus":
        return ws.read_octopus(path)
    if fmt == "json":
        return ws.read_json(path)
    if fmt == "ww3":
        return ws.read_ww3(path).load()
    if fmt == "netcdf":
        return ws.read_netcdf(path).load()
    if fmt == "funwave":
        return ws.read_funwave(path)
    raise ValueError(fmt)


# -- greybox probe: module-level mutable state of the library -------------------------------
from simkit.probe import global_state  # noqa: E402


BATTERY_RECIPES = [
    {"dims": [["time", 2]], "nf": 6, "nd": 0, "data": {"kind": "peaked", "seed": 11}},
    {"dims": [["time", 2], ["site", 2]], "nf": 6, "nd": 8, "data": {"kind": "int_bumps", "seed": 12}},
]
BATTERY_1D = [{"m": "hs", "via": "ds"}, {"m": "split", "via": "da", "kw": {"fmin": 0.05}}, {"m": "stats", "via": "ds", "stats": ["hs", "tp"], "kw": {"fmax": 0.09}},
              {"m": "tm02", "via": "da"}]
BATTERY_2D = BATTERY_1D + [{"m": "split", "via": "da", "kw": {"dmin": 45.0, "dmax": 200.0}}, {"m": "smooth", "via": "da", "kw": {}},
                           {"m": "ptm3", "via": "ds", "kw": {"parts": 2}}, {"m": "dpm", "via": "ds"}, {"m": "crsd", "via": "da"},
                           {"m": "sel", "via": "ds", "lons": [151.0, 151.0], "lats": [-29.0, -29.0], "kw": {"method": "nearest", "tolerance": 50.0}}]


BATTERY_STEPS = [
    {"op": "reconstruct", "parts": 2, "method": "ptm3"},
    {"op": "reconstruct", "parts": 1, "method": "ptm1", "use_defaults": ["alpha", "dpspr"]},
    {"op": "construct", "freq_name": "jonswap", "dir_name": "cartwright", "fk": {"freq": [0.04, 0.05, 0.0625, 0.078, 0.0977, 0.122], "fp": 0.0625, "hs": 2.0},
     "dk": {"dir": [0.0, 60.0, 120.0, 180.0, 240.0, 300.0], "dm": 120.0, "dspr": 25.0}},
]


# -- reading the repository's sample files and generated instrument files ---------------------
SAMPLES = [
    ("read_swan", "swanfile.spec", {}), ("read_swan", "swanfile.spec", {"as_site": True}), ("read_swan", "swanhot.spec", {}),
    ("read_triaxys", "triaxys.DIRSPEC", {}), ("read_triaxys", "triaxys.NONDIRSPEC", {}),
    ("read_octopus", "octopusfile.oct", {}), ("read_json", "jsonfile.json", {}), ("read_funwave", "funwavefile.txt", {}),
    ("read_ww3", "ww3file.nc", {}), ("read_era5", "era5file.nc", {}), ("read_ww3_station", "ww3station.spec", {}),
    ("read_spotter", "spotter_20210929b.csv", {}), ("read_spotter", "spotter_20180214.json", {}), ("read_spotter", "spotter_20210929.csv", {}),
    ("read_datawell", "datawell/*.spt", {}), ("open:swan", "swanfile.spec", {}), ("open:ww3", "ww3file.nc", {}), ("open:json", "jsonfile.json", {}),
    ("open:octopus", "octopusfile.oct", {}), ("open:funwave", "funwavefile.txt", {}), ("open:triaxys", "triaxys.DIRSPEC", {}), ("open:era5", "era5file.nc", {}),
    ("open:ww3_station", "ww3station.spec", {}), ("open:spotter", "spotter_20180214.json", {}), ("open:ndbc_ascii", "ndbc/41010w2019part.txt.gz", {}),
    ("read_obscape", "obscape/19800102_123456_Obscape2d_course.csv", {}),
    ("obscape_dir", "obscape", {"start": "1985-01-01", "end": "1995-01-01"}), ("obscape_dir", "obscape", {"start": "1975-01-01", "end": "1985-01-01"}),
    ("obscape_dir", "obscape", {"start": "1985-01-01", "end": "1995-01-01", "stray": "notes.csv"}), ("obscape_dir", "obscape", {}),
    ("read_obscape", "obscape/19900102_123456_Obscape2d_fine.csv", {}),
    ("read_ndbc_ascii", "ndbc/41010w2019part.txt.gz", {}),
    # several files handed over as the caller's own list (not in name order)
    ("read_spotter", ["spotter_20210929b.csv", "spotter_20210929.csv"], {}), ("read_datawell", ["datawell/buoy}2024-09-09T01h44Z.spt", "datawell/buoy}2024-09-09T01h15Z.spt"], {}),
    ("read_ww3", ["ww3file.nc"], {}), ("read_spotter", ["spotter_20210929b.csv", "spotter_20210929.csv"], {}),
    ("read_obscape", ["obscape/19800102_123456_Obscape2d_course.csv"], {}), ("read_obscape", ["obscape/19900102_123456_Obscape2d_fine.csv", "obscape/19900102_123456_Obscape2d_fine.csv"], {}),
]


def write_triaxys(path, nf, df, ddir, seed, directional=True):
    """A TRIAXYS report in the layout of tests/sample_files/triaxys.*SPEC (generated input for the reader)."""
    rng = np.random.default_rng(seed)
    nd = int(round(360 / ddir)) + 1
    with open(path, "w") as f:
        f.write("TRIAXYS BUOY DATA REPORT - VERIF01 - TAB00001 - 4857.6668S16631.6837W\nVERSION = WV (NDS)\n")
        f.write(f"TYPE\t= {'DIRECTIONAL' if directional else 'NON-DIRECTIONAL'} SPECTRUM\nDATE    = 2018-01-31 21:00(UTC)\n")
        f.write(f"NUMBER OF FREQUENCIES              = {nf:7d}\nNUMBER OF RESOLVABLE FREQUENCIES   = {nf - 6:7d}\n")
        f.write(f"INITIAL FREQUENCY (Hz)             = {0.0:7.3f}\nFREQUENCY SPACING (Hz)             = {df:7.3f}\n")
        f.write(f"RESOLVABLE FREQUENCY RANGE (Hz)    = {6 * df:7.3f}  TO {nf * df:6.3f}\n")
        if directional:
            f.write(f"NUMBER OF DIRECTIONS               = {nd:7d}\nDIRECTION SPACING (DEG)            = {int(ddir):7d}\nCOLUMNS = 0.00 TO 360.00 DEG\n")
            f.write(f"ROWS\t= 0.00 TO {nf * df:6.2f} Hz\n")
            for i in range(nf):
                f.write(" " + " ".join(f"{v:.5E}" for v in rng.uniform(0, 1e-2, nd) * (i > 5)) + "\n")
        else:
            f.write("COLUMN 1 = FREQUENCY (Hz)\nCOLUMN 2 = SPECTRAL DENSITY (M2/HZ)\n")
            for i in range(nf):
                f.write(f" {i * df:.5E} {rng.uniform(0, 1) * (i > 5):.5E}\n")


CWD0 = os.getcwd()


def read_sample(repo, st, fs_root, paths=None):
    import wavespectra as ws

    if isinstance(st.get("file"), list):
        if paths is None:
            paths = [os.path.join(repo, "tests", "sample_files", f) for f in st["file"]]
        out = getattr(ws, st["reader"])(paths, **st.get("kw", {}))
        return out.load() if hasattr(out, "load") else out

    if st.get("gen") == "triaxys":
        path = os.path.join(fs_root, f"gen{st['nf']}_{int(st['ddir'])}_{st['seed']}.{'DIRSPEC' if st['directional'] else 'NONDIRSPEC'}")
        if not os.path.exists(path):
            os.makedirs(fs_root, exist_ok=True)
            write_triaxys(path, st["nf"], st["df"], st["ddir"], st["seed"], st["directional"])
        return ws.read_triaxys(path)
    path = os.path.join(repo, "tests", "sample_files", st["file"])
    if st["reader"] == "obscape_dir":
        # a deployment directory read through the directory reader (optionally with a file in it that is not a spectrum)
        import datetime as _dt
        import shutil

        from wavespectra.input.obscape import read_obscape_dir

        kw = st.get("kw", {})
        d = path
        if kw.get("stray"):
            d = os.path.join(fs_root, "obscape_with_" + kw["stray"].replace(".", "_"))
            if not os.path.isdir(d):
                os.makedirs(fs_root, exist_ok=True)
                shutil.copytree(path, d)
                with open(os.path.join(d, kw["stray"]), "w") as f:
                    f.write("deployment notes\n")
        args = {}
        if kw.get("start"):
            args = {"start_date": _dt.datetime.fromisoformat(kw["start"]), "end_date": _dt.datetime.fromisoformat(kw["end"])}
        return read_obscape_dir(d, **args).load()
    if st.get("rel"):
        path = os.path.relpath(path, CWD0)      # the caller works with paths relative to the directory the process was started in
    if st["reader"].startswith("open:"):
        import xarray as xr     # the reader reached through the xarray backend entry point the package registers

        with xr.open_dataset(path, engine=st["reader"][5:], **st.get("kw", {})) as out:
            return out.load()
    out = getattr(ws, st["reader"])(path, **st.get("kw", {}))
    return out.load() if hasattr(out, "load") else out


# -- reference side ----------------------------------------------------------------------
def ref_handler(req):
    """Runs in a grandchild of the pristine reference server: one call, once."""
    import dask

    dask.config.set(scheduler="sync")
    import warnings

    warnings.simplefilter("ignore")
    import logging

    logging.disable(logging.INFO)
    from simkit.clock import pin_clock

    pin_clock()
    kind = req["kind"]
    try:
        if kind == "call":
            obj = F.thaw(req["obj"])
            aux = F.thaw(req["aux"])
            pargs = _plain_args(req["call"])
            if req["call"]["m"] == "interp_like":
                pargs["other"] = F.thaw(req["other"])
            res = O.apply_op(obj, req["call"], aux=aux, args=pargs)
        elif kind == "bad":
            obj = F.thaw(req["obj"])
            aux = F.thaw(req["aux"])
            res = run_bad(obj, aux, req["bad"])
        elif kind == "construct":
            st = req["st"]
            fk = {k: _mat(v) for k, v in st["fk"].items()}
            dk = {k: _mat(v) for k, v in st["dk"].items()}
            res = run_construct(st, fk, dk)
        elif kind == "reconstruct":
            res = run_reconstruct(F.thaw(req["obj"]), req["st"])
        elif kind == "native":
            from wavespectra.partition import specpart

            res = specpart.partition(native_array(req["shape"], req["seed"], req.get("flat", False), req.get("nudge")), req["ihmax"])
        elif kind == "reader":
            res = call_reader(F.thaw(req["obj"]), req["fmt"], req["fn"])
        elif kind == "readfile":
            res = do_read(req["fmt"], req["path"])
        elif kind == "writer":
            wobj = F.thaw(req["obj"])
            if req.get("drop_lonlat"):
                wobj = wobj.drop_vars([v for v in ("lon", "lat") if v in wobj.variables])
            os.makedirs(req["root"], exist_ok=True)
            rpath = os.path.join(req["root"], req["file"])
            if os.path.exists(rpath):
                os.remove(rpath)
            do_write(wobj, req["fmt"], rpath, dict(req["kw"], **req["wargs"]))
            res = do_read(req["fmt"], rpath)
        elif kind == "readsample":
            res = read_sample(req["repo"], req["st"], req["fs_root"])
        else:
            raise AssertionError(kind)
        return {"ok": cmp.canon(res)}
    except Exception as exc:  # the call's own exception is part of the expected behaviour
        return {"raised": type(exc).__name__, "msg": str(exc)[:300]}


def _plain_args(call):
    import xarray as xr

    args = {}
    if call["m"] == "interp" and call.get("as_da"):
        for name in ("freq", "dir"):
            if call.get(name) is not None:
                vals = np.asarray(call[name], dtype=float)
                args[name] = xr.DataArray(vals, dims=(name,), coords={name: vals}, name=name)
    if call["m"] == "sel":
        if call.get("as_array"):
            args["lons"] = np.asarray(call["lons"], dtype=float)
            args["lats"] = np.asarray(call["lats"], dtype=float)
    return args


# -- the machine ---------------------------------------------------------------------------
def execute(arg):
    from engines.schedsim import install_seams
    from simkit import build, lanes, refproc, simfs
    from simkit.baton import simulated_compute

    prop = arg.get("prop", "C18")
    plan = arg["plan"]
    sim = Sim(arg["run_seed"], tape=arg.get("tape"), strict=arg.get("strict", False))
    if arg.get("plan_retries"):
        sim.count("plan_generation_retries", arg["plan_retries"])
    server = refproc.RefServer(ref_handler) if prop == "C18" else None   # forked while pristine
    install_seams(arg["run_seed"])
    repo = build.repo_root()
    root = os.path.join(lanes.scratch_root(), "fs")
    fs = simfs.SimFS(root, sim, bufsize=plan.get("bufsize", 8192))
    fs.install()
    viol = []
    out = {"outcome": "ok", "violations": viol, "shape": digest(shape(plan))}
    slots = {}
    store = ArgStore()
    acked = {}
    state_changes = 0
    gstate = global_state() if prop == "C18" else None

    def battery(i, what):
        """Extra observations after the library's module-level state was seen to change."""
        sim.count("battery_runs")
        targets = [(D.make_dataset(r), None, BATTERY_2D if r["nd"] else BATTERY_1D) for r in BATTERY_RECIPES]
        for sid2, sl2 in sorted(slots.items()):
            if sl2.kind in ("ds", "da") and sl2.backing != "dask":
                has_dir = "dir" in (sl2.obj.dims if sl2.kind == "da" else sl2.obj["efth"].dims)
                targets.append((sl2.obj, sl2.aux, [c for c in (BATTERY_2D if has_dir else BATTERY_1D) if c["m"] not in ("sel", "ptm3") and not (sl2.kind == "da" and c.get("via") == "ds")]))
        # the other entry points of the library: construction and reconstruction with their default arguments
        rec_ds = D.make_dataset(BATTERY_RECIPES[1])
        for st2 in BATTERY_STEPS:
            kind2 = st2["op"]
            try:
                if kind2 == "construct":
                    fk2 = {k: _mat(v) for k, v in st2["fk"].items()}
                    dk2 = {k: _mat(v) for k, v in st2["dk"].items()}
                    mine, raised = cmp.canon(run_construct(st2, fk2, dk2)), None
                    req2 = {"kind": "construct", "st": st2}
                else:
                    mine, raised = cmp.canon(run_reconstruct(rec_ds, st2)), None
                    req2 = {"kind": "reconstruct", "st": st2, "obj": F.freeze(rec_ds)}
            except Exception as exc:
                mine, raised = None, type(exc).__name__
                req2 = {"kind": kind2, "st": st2, "obj": F.freeze(rec_ds)}
            rep = server.call(req2)
            sim.count("battery_calls")
            if "harness" in rep:
                raise RuntimeError("reference process failed: " + rep["harness"])
            lab2 = "partition_and_reconstruct" if kind2 == "reconstruct" else "construct_partition"
            if raised is not None or "raised" in rep:
                if raised != rep.get("raised"):
                    add("C18", "fresh", lab2, f"after:global-state:{what}", "exception",
                        f"{lab2} {('raises ' + raised) if raised else 'returns'} after module-level state {what} changed, but in a pristine process it "
                        f"{('raises ' + rep['raised'] + ': ' + rep.get('msg', '')) if 'raised' in rep else 'returns'}", i)
            else:
                d = cmp.compare(rep["ok"], mine, rtol=None)
                if d:
                    add("C18", "fresh", lab2, f"after:global-state:{what}", d[0],
                        f"{lab2} after module-level state {what} changed differs from a pristine process: {d[1]}", i)
        # ... and a file read by a path relative to the directory the process was started in
        st3 = {"op": "readsample", "reader": "read_swan", "file": "swanfile.spec", "kw": {}, "rel": True}
        try:
            mine, raised = cmp.canon(read_sample(repo, st3, os.path.join(root, "gen"))), None
        except Exception as exc:
            mine, raised = None, type(exc).__name__
        rep = server.call({"kind": "readsample", "st": st3, "repo": repo, "fs_root": os.path.join(root, "gen")})
        sim.count("battery_calls")
        if "harness" in rep:
            raise RuntimeError("reference process failed: " + rep["harness"])
        if raised is not None or "raised" in rep:
            if raised != rep.get("raised"):
                add("C18", "fresh", "read_swan", f"after:global-state:{what}", "exception",
                    f"read_swan of a relative path {('raises ' + raised) if raised else 'returns'} after process state {what} changed, but in a pristine process it "
                    f"{('raises ' + rep['raised'] + ': ' + rep.get('msg', '')) if 'raised' in rep else 'returns'}", i)
        else:
            d = cmp.compare(rep["ok"], mine, rtol=None)
            if d:
                add("C18", "fresh", "read_swan", f"after:global-state:{what}", d[0], f"read_swan of a relative path after process state {what} changed differs from a pristine process: {d[1]}", i)
        for obj, aux, calls in targets:
            for call in calls:
                try:
                    mine, raised = cmp.canon(O.apply_op(obj, call, aux=aux)), None
                except Exception as exc:
                    mine, raised = None, type(exc).__name__
                rep = server.call({"kind": "call", "call": call, "obj": F.freeze(obj), "aux": F.freeze(aux) if aux is not None else None})
                sim.count("battery_calls")
                if "harness" in rep:
                    raise RuntimeError("reference process failed: " + rep["harness"])
                lab2 = call["m"]
                if raised is not None or "raised" in rep:
                    if raised != rep.get("raised"):
                        add("C18", "fresh", lab2, f"after:global-state:{what}", "exception",
                            f"{lab2} {('raises ' + raised) if raised else 'returns'} after module-level state {what} changed, but in a pristine process it "
                            f"{('raises ' + rep['raised'] + ': ' + rep.get('msg', '')) if 'raised' in rep else 'returns'}", i)
                else:
                    d = cmp.compare(rep["ok"], mine, rtol=None)
                    if d:
                        add("C18", "fresh", lab2, f"after:global-state:{what}", d[0],
                            f"{lab2} after module-level state {what} changed differs from a pristine process: {d[1]}", i)

    def add(p, oracle, op, cause, cls, detail, step_i):
        viol.append({"property": p, "signature": f"{p}/{oracle}/{op}/{cause}/{cls}", "step": step_i,
                     "detail": f"step {step_i} of {len(plan['steps'])}: {detail}"[:900]})

    def cause_of(i, slot_id):
        """Most recent state-changing step before step i (the minimiser makes this precise)."""
        for j in range(i - 1, -1, -1):
            st = plan["steps"][j]
            if st["op"] == "edit" and st.get("slot") == slot_id:
                return f"after:edit:{st['edit']['k']}"
            if st["op"] in ("call", "native", "reader", "bad") and j < i:
                lab = st["call"]["m"] if st["op"] == "call" else (st["op"] if st["op"] != "bad" else "bad:" + st["bad"]["k"])
                return f"after:{lab}"
        return "first-call"

    def snapshot_all():
        s = {}
        for sid, sl in slots.items():
            P.snap(sl.obj, s, f"slot{sid}")
            if sl.aux is not None:
                P.snap(sl.aux, s, f"slot{sid}.aux")
            if sl.src is not None:
                P.snap(sl.src, s, f"slot{sid}.src")
            if sl.keep is not None:
                P.snap(sl.keep, s, f"slot{sid}.buffer")
        for key, o in store.objs.items():
            P.snap(o, s, f"arg:{key[:40]}")
        return s

    def check_purity(before, i, st, situation, exempt=None):
        after = snapshot_all()
        if exempt is not None:
            pre = f"slot{exempt}"
            before = {k: v for k, v in before.items() if not (k.startswith(pre) and k[len(pre):len(pre) + 1] in (".", "["))}
        # objects created by this step are not in `before`; everything that existed must be unchanged
        d = P.diff(before, {k: after[k] for k in before if k in after})
        if d:
            what = d[0]
            lab = _step_label(st)
            comp = what.rsplit(".", 1)[-1] if "." in what else what
            where = "arg" if what.startswith("arg:") else ("aux" if ".aux" in what else ("source" if ".src" in what else ("guard-buffer" if what.split("[")[0].endswith(".buffer") or ".buffer." in what.split("[")[0] + "." else "object")))
            var = what[what.find("[") + 1: what.find("]")] if "[" in what and not what.startswith("arg:") else "-"
            sim.count("purity_violations")
            add("C17", "purity", lab, f"{where}:{var}.{comp}", situation, f"{lab} ({situation}) changed {what}: {d[1]} -> {d[2]}", i)
            return True
        return False

    try:
        for i, st in enumerate(plan["steps"]):
            op = st["op"]
            sid = st.get("slot")
            sim.count("steps")
            if op not in ("new", "mknative", "native", "readfile", "construct", "readsample", "churn") and sid not in slots:
                sim.count("steps_skipped")
                continue
            # make sure argument objects exist before the snapshot (the caller owns them up front)
            args = call_args(store, st["call"]) if op == "call" else {}
            if op == "call" and st["call"].get("dset_lonlat") and sid in slots and slots[sid].kind == "ds" and "lon" in slots[sid].obj.variables:
                # the caller's own copies of the station positions, as of now
                store.objs[f"dsetlons{sid}"] = np.array(slots[sid].obj["lon"].values)
                store.objs[f"dsetlats{sid}"] = np.array(slots[sid].obj["lat"].values)
                args = dict(args, dset_lons=store.objs[f"dsetlons{sid}"], dset_lats=store.objs[f"dsetlats{sid}"])
            spaths = None
            if op == "readsample" and isinstance(st.get("file"), list):
                spaths = store.get("list", [os.path.join(repo, "tests", "sample_files", f) for f in st["file"]])    # the caller's own list of file names
            wargs = {}
            if op == "writer" and st.get("lonlat_args"):
                wargs = {"lons": store.get("array", st["lonlat_args"][0]), "lats": store.get("array", st["lonlat_args"][1])}
            if op == "writer" and isinstance(st.get("kw", {}).get("time_encoding"), dict):
                wargs["time_encoding"] = store.get("dict", st["kw"]["time_encoding"])     # the caller's own dictionary
            if op == "construct":
                fk, dk = construct_kwargs(store, st)
            if op == "reconstruct":
                rargs = {k: store.get("list", list(st[k])) for k in ("use_defaults", "freq_name", "dir_name") if isinstance(st.get(k), list)}
            if op == "bad" and st["bad"]["k"] == "stats_dict_unknown":
                store.objs.setdefault(f"badargs{sid}", {}).setdefault("statsdict:" + json.dumps(st["bad"]["stats"], sort_keys=True),
                                                                     {k_: dict(v_) for k_, v_ in st["bad"]["stats"].items()})
            if op == "bad" and st["bad"]["k"] == "ptm_coords_close" and sid in slots and slots[sid].kind in ("ds", "da"):
                ex = store.objs.setdefault(f"badargs{sid}", {})
                if "dpt32" not in ex:
                    w_ = slots[sid].aux if slots[sid].aux is not None else slots[sid].obj
                    try:
                        ex["dpt32"] = w_["dpt"].assign_coords(lon=("site", w_["dpt"]["lon"].values.astype("float32").astype("float64") + 1e-9),
                                                             lat=("site", w_["dpt"]["lat"].values.astype("float32").astype("float64")))
                    except Exception:
                        pass
            before = snapshot_all() if prop == "C17" else None
            situation = "returned"
            if op == "new":
                slots[sid] = build_slot(st, scratch=os.path.join(root, "via"))
                sim.count("slots_built")
                continue
            if op == "mknative":
                slots[sid] = Slot("native", make_native(st["src_recipe"], st["fmt"]), fmt=st["fmt"])
                continue
            if op == "churn":
                batch = []
                for j in range(st["n"]):
                    rj = dict(st["recipe"])
                    rj["data"] = dict(rj["data"], seed=int(rj["data"].get("seed", 0)) + j)
                    g = j % max(1, st.get("grids", 1))
                    if g:
                        rj["freq"] = dict(rj.get("freq", {}), f0=round(float(rj.get("freq", {}).get("f0", 0.04)) * (1.0 + 0.11 * g), 4))
                    tmp = D.make_dataset(rj)
                    for c_ in st["call"]:
                        try:
                            O.apply_op(tmp, c_)
                        except Exception:
                            pass
                    batch.append(tmp)       # a working set that lives together ...
                    del tmp
                del batch                    # ... and is dropped together
                import gc

                gc.collect()                 # the collector runs here (cyclic GC is off otherwise: *when* it runs is the simulator's call)
                sim.count("churn_objects", st["n"])
                state_changes += 1
                if prop == "C18" and st.get("observe"):
                    # many fresh objects with one and the same content: each must answer what a pristine process answers
                    first = D.make_dataset(st["observe"])
                    reps = []
                    for c_ in st["call"]:
                        rep = server.call({"kind": "call", "call": c_, "obj": F.freeze(first), "aux": None})
                        sim.count("reference_calls")
                        if "harness" in rep:
                            raise RuntimeError("reference process failed: " + rep["harness"])
                        reps.append(rep)
                    del first
                    alive = []
                    found = False
                    for j in range(st.get("fresh", 40)):
                        tmp = D.make_dataset(st["observe"])
                        alive.append(tmp)       # the new working set stays alive, so it spreads over the freed memory
                        for c_, rep in zip(st["call"], reps):
                            lab = O.op_label(c_)
                            try:
                                mine, mraised = cmp.canon(O.apply_op(tmp, c_)), None
                            except Exception as exc:
                                mine, mraised = None, type(exc).__name__
                            sim.count("churn_observations")
                            if mraised is not None or "raised" in rep:
                                if mraised != rep.get("raised"):
                                    add("C18", "fresh", c_["m"], "after:churn", "exception",
                                        f"{lab} on fresh object #{j} (after {st['n']} short-lived objects on other grids) {('raises ' + mraised) if mraised else 'returns'}, in a pristine process it "
                                        f"{('raises ' + rep['raised']) if 'raised' in rep else 'returns'}", i)
                                    found = True
                            else:
                                d = cmp.compare(rep["ok"], mine, rtol=None)
                                if d:
                                    add("C18", "fresh", c_["m"], "after:churn", d[0],
                                        f"{lab} on fresh object #{j} with the same contents as all the others (after {st['n']} short-lived objects on other grids were built, used and dropped) "
                                        f"differs from a pristine process: {d[1]}", i)
                                    found = True
                        del tmp
                        if found:
                            break
                    del alive
                continue
            sl = slots.get(sid)
            if op == "edit":
                if sl.kind == "native":
                    continue
                try:
                    apply_edit(sl, st["edit"])
                    state_changes += 1
                    sim.count("edits")
                except Exception as exc:
                    sim.count("edit_raised")
                    sim.event("edit-raised", st["edit"]["k"], type(exc).__name__)
                if prop == "C17":
                    check_purity(before, i, st, "edit-other-objects", exempt=sid)
                continue
            # ---- steps that are observed -------------------------------------------------
            res_c, raised, req = None, None, None
            lab = _step_label(st)
            try:
                if op == "call":
                    call = st["call"]
                    if sl.kind == "native" or (call["m"] == "sel" and sl.kind != "ds"):
                        continue
                    if call["m"] == "interp_like":
                        if call["other"] not in slots or slots[call["other"]].kind not in ("ds", "da"):
                            continue
                        args = dict(args, other=slots[call["other"]].obj)
                    res = O.apply_op(sl.obj, call, aux=sl.aux, args=args)
                    if st.get("sim") and _is_lazy(res):
                        situation = "deferred"
                        sim.count("deferred_computes")
                        res = _sim_compute(res, sim, st["sim"], repo)
                    res_c = cmp.canon(res)
                    req = {"kind": "call", "call": call}
                elif op == "bad":
                    req = {"kind": "bad", "bad": st["bad"]}
                    res_c = cmp.canon(run_bad(sl.obj, sl.aux, st["bad"], extra=store.objs.setdefault(f"badargs{sid}", {})))
                elif op == "readsample":
                    req = {"kind": "readsample", "st": st, "repo": repo, "fs_root": os.path.join(root, "gen")}
                    res_c = cmp.canon(read_sample(repo, st, os.path.join(root, "gen"), paths=spaths))
                    sim.count("sample_reads")
                    if spaths is not None:
                        sim.count("sample_reads_filelist")
                elif op == "construct":
                    req = {"kind": "construct", "st": st}
                    res_c = cmp.canon(run_construct(st, fk, dk))
                    sim.count("construct_calls")
                elif op == "reconstruct":
                    if sl.kind != "ds":
                        continue
                    req = {"kind": "reconstruct", "st": st}
                    res_c = cmp.canon(run_reconstruct(sl.obj, st, rargs))
                    sim.count("reconstruct_calls")
                elif op == "native":
                    from wavespectra.partition import specpart

                    a = native_array(st["shape"], st["seed"], st.get("flat", False), st.get("nudge"))
                    store.objs[f"native{i}"] = a
                    if prop == "C17":
                        before = snapshot_all()
                    res_c = cmp.canon(specpart.partition(a, st["ihmax"]))
                    req = {"kind": "native", "shape": st["shape"], "seed": st["seed"], "ihmax": st["ihmax"], "flat": st.get("flat", False), "nudge": st.get("nudge")}
                    sim.count("native_calls")
                elif op == "reader":
                    if sl.kind not in ("native", "ds"):
                        continue
                    req = {"kind": "reader", "fmt": sl.fmt if sl.kind == "native" else st.get("as_fmt", "ww3"), "fn": st["fn"]}
                    res_c = cmp.canon(call_reader(sl.obj, req["fmt"], req["fn"]))
                    sim.count("reader_calls")
                elif op == "writer":
                    if sl.kind != "ds":
                        continue
                    path = fs.path(st["file"])
                    fs.arm(st.get("fault"))
                    try:
                        wobj = sl.obj
                        if st.get("drop_lonlat"):
                            # the dataset carries no positions (a new Dataset object over the same arrays): the writer
                            # then takes them from the lons= / lats= arguments
                            wobj = sl.obj.drop_vars([v for v in ("lon", "lat") if v in sl.obj.variables])
                        do_write(wobj, st["fmt"], path, dict(st.get("kw", {}), **wargs))
                        acked[st["file"]] = st["fmt"]
                        sim.count("writes_acked")
                    finally:
                        fired = list(fs.fired)
                        fs.disarm()
                    if fired:
                        sim.count("writes_survived_fault")
                    if prop == "C18" and not fired and st["fmt"] != "orcaflex" and not st.get("kw", {}).get("append"):
                        # the file is the writer's result: what its reader returns for it must be what it returns for the file a
                        # pristine process writes from a fresh object with the same contents
                        req = {"kind": "writer", "fmt": st["fmt"], "kw": dict(st.get("kw", {})), "file": st["file"], "root": os.path.join(root, "ref"),
                               "drop_lonlat": bool(st.get("drop_lonlat")), "wargs": {k_: (np.array(v_) if isinstance(v_, np.ndarray) else copy.deepcopy(v_)) for k_, v_ in wargs.items()}}
                        res_c = cmp.canon(do_read(st["fmt"], path))
                        sim.count("writes_observed")
                elif op == "readfile":
                    if acked.get(st["file"]) != st["fmt"]:
                        continue
                    path = fs.path(st["file"])
                    req = {"kind": "readfile", "fmt": st["fmt"], "path": path}
                    res_c = cmp.canon(do_read(st["fmt"], path))
            except Exception as exc:
                raised = type(exc).__name__
                sim.event("raised", lab, raised, str(exc).replace(root, "<fs>")[:120])
                if op == "writer":
                    acked.pop(st["file"], None)
                    sim.count("writes_raised")
                    if fs.fired:
                        sim.count("writes_aborted_by_fault")
                situation = "raised" if situation != "deferred" else "deferred-raised"
            sim.count("observed_steps")
            sim.count("situation." + situation)
            # ---- C17 ---------------------------------------------------------------------
            if prop == "C17":
                check_purity(before, i, st, situation)
            # ---- C18 ---------------------------------------------------------------------
            if prop == "C18" and req is not None:
                if op in ("call", "bad", "reader", "reconstruct", "writer"):
                    req["obj"] = F.freeze(sl.obj)
                    req["aux"] = F.freeze(sl.aux) if sl.aux is not None else None
                    if op == "call" and st["call"]["m"] == "interp_like":
                        req["other"] = F.freeze(slots[st["call"]["other"]].obj)
                    if op == "reader":
                        req["obj"] = F.freeze(sl.obj)
                rep = server.call(req)
                sim.count("reference_calls")
                if "harness" in rep:
                    raise RuntimeError("reference process failed: " + rep["harness"] + rep.get("tb", ""))
                if state_changes or i > 1:
                    sim.count("observed_after_history")
                cause = cause_of(i, sid)
                if raised is not None or "raised" in rep:
                    if raised != rep.get("raised"):
                        add("C18", "fresh", lab, cause, "exception",
                            f"{lab} after this history {('raises ' + raised) if raised else 'returns'} but in a pristine process on a fresh object with the same contents it "
                            f"{('raises ' + rep['raised'] + ': ' + rep.get('msg', '')) if 'raised' in rep else 'returns'}", i)
                else:
                    d = cmp.compare(rep["ok"], res_c, rtol=None)
                    if d:
                        add("C18", "fresh", lab, cause, d[0],
                            f"{lab} differs from the same call on a freshly constructed object with the same contents in a pristine process: {d[1]}", i)
                # second clause: the Dataset accessor agrees with the accessor of its efth variable
                if op == "call" and st.get("both") and sl.kind == "ds" and st["call"]["m"] != "sel" and raised is None:
                    other = dict(st["call"], via="da" if st["call"].get("via") == "ds" else "ds")
                    try:
                        oc = cmp.canon(O.apply_op(sl.obj, other, aux=sl.aux, args=args))
                        d = cmp.compare(res_c, oc, rtol=None)
                        if d:
                            add("C18", "agree", lab, cause, d[0], f"ds.spec.{lab} and ds.efth.spec.{lab} disagree at the same instant: {d[1]}", i)
                    except Exception as exc:
                        add("C18", "agree", lab, cause, "exception", f"ds.spec / ds.efth.spec: one returns, the other raises {type(exc).__name__}: {exc}", i)
                    sim.count("agree_checks")
            if op in ("call", "native", "reader"):
                state_changes += 1
            if gstate is not None:
                now = global_state()
                if now != gstate:
                    changed = sorted(k for k in set(now) | set(gstate) if now.get(k) != gstate.get(k))
                    sim.count("global_state_changes")
                    sim.event("global-state-changed", lab, ",".join(changed)[:200])
                    gstate = now
                    battery(i, changed[0].split("wavespectra.", 1)[-1])
    finally:
        fs.cleanup()
        if server is not None:
            server.close()
    sim.count("attrs_table_size", 0)
    out["stats"] = sim.stats
    out["tape_digest"] = digest(sim.tape)
    out["log_digest"] = sim.log_digest()
    if prop == "C18":
        out["nontrivial"] = sim.stats.get("observed_after_history", 0) >= 1
    else:
        out["nontrivial"] = sim.stats.get("observed_steps", 0) >= 1
    if viol:
        out["outcome"] = "violation"
    if arg.get("want_tape") or viol:
        out["tape"] = sim.tape
        out["plan"] = plan
    if arg.get("want_log"):
        out["log"] = [list(map(str, e)) for e in sim.log[-400:]]
    return out


def _prefixes(before):
    return ()


def _is_lazy(res):
    import xarray as xr

    if isinstance(res, (xr.DataArray, xr.Dataset)):
        return bool(res.chunks)
    if isinstance(res, tuple):
        return any(_is_lazy(r) for r in res)
    return False


def _sim_compute(res, sim, cfg, repo):
    from simkit.baton import simulated_compute

    if isinstance(res, tuple):
        import dask

        class _Bag:
            def compute(self, **kw):
                return dask.compute(*res, **kw)

        return simulated_compute(_Bag(), sim, cfg, repo, {"chunksize": 1})
    return simulated_compute(res, sim, cfg, repo, {"chunksize": cfg.get("chunksize", 1), "optimize_graph": cfg.get("optimize_graph", True)})


def _step_label(st):
    op = st["op"]
    if op == "call":
        return st["call"]["m"] if st["call"]["m"] != "stats" else "stats"
    if op == "bad":
        return "bad:" + st["bad"]["k"]
    if op == "edit":
        return "edit:" + st["edit"]["k"]
    if op == "native":
        return "specpart.partition"
    if op == "readsample":
        return st.get("reader", "read_triaxys")
    if op == "construct":
        return "construct_partition"
    if op == "reconstruct":
        return "partition_and_reconstruct"
    if op == "reader":
        return "reader:" + st.get("fn", "")
    if op == "writer":
        return "to_" + st["fmt"]
    if op == "readfile":
        return "read_" + st["fmt"]
    return op


# =======================================================================================
# minimisation support
# =======================================================================================
def simplify(plan):
    out = []
    steps = plan["steps"]
    n = len(steps)
    # ddmin-style: drop halves, quarters, then single steps (never the last step: it is the observation)
    sizes = [max(1, n // 2), max(1, n // 4), 1]
    seen = set()
    for size in sizes:
        for start in range(0, n, size):
            keep = steps[:start] + steps[start + size:]
            if not keep or len(keep) == n:
                continue
            key = json.dumps(keep, sort_keys=True)
            if key in seen:
                continue
            seen.add(key)
            p = dict(plan, steps=copy.deepcopy(keep))
            out.append(p)
    # per-step simplification
    for i, st in enumerate(steps):
        def variant(f):
            p = copy.deepcopy(plan)
            try:
                if f(p["steps"][i]) is not False and p != plan:
                    out.append(p)
            except Exception:
                pass
        if st["op"] == "new":
            r = st["recipe"]
            if st["backing"] != "numpy":
                variant(lambda s: s.update(backing="numpy"))
            for j in range(len(r["dims"])):
                variant(lambda s, j=j: s["recipe"]["dims"].pop(j))
                if r["dims"][j][1] > 1:
                    variant(lambda s, j=j: s["recipe"]["dims"][j].__setitem__(1, 1))
            if r["dtype"] != "float64":
                variant(lambda s: s["recipe"].update(dtype="float64"))
            variant(lambda s: s["recipe"]["dir"].update(order="asc", dir0=0.0))
            variant(lambda s: s["recipe"].update(spec_last=True))
        elif st["op"] == "call":
            if st.get("sim"):
                variant(lambda s: s.pop("sim"))
            if st.get("both"):
                variant(lambda s: s.update(both=False))
            for k in list(st["call"].get("kw", {})):
                variant(lambda s, k=k: s["call"]["kw"].pop(k))
            if st["call"]["m"] == "stats" and len(st["call"]["stats"]) > 1:
                for j in range(len(st["call"]["stats"])):
                    variant(lambda s, j=j: s["call"]["stats"].pop(j))
        elif st["op"] == "writer":
            if st.get("fault"):
                variant(lambda s: s.pop("fault"))
                if st["fault"].get("k", 1) > 1:
                    variant(lambda s: s["fault"].update(k=1))
            for k in list(st.get("kw", {})):
                variant(lambda s, k=k: s["kw"].pop(k))
    return out


def sample(plan):
    return {"history": shape(plan)}


RULES = {
    "C18": ("a run is one seeded history (<= 13 steps quick, <= 25 thorough) of new/call/bad-call/edit/native/reader steps over <= 3 slots; every "
            "value-returning step is compared bit-exactly with the same call on a freshly constructed object with the same contents in a pristine "
            "process; non-trivial = at least one observed step happened after at least one state-changing step; distinct = distinct history-shape digests"),
    "C17": ("a run is one seeded history of calls, failing calls, edits, native calls, reader helpers and writers (60% of writers hit by an injected "
            "I/O fault at the k-th raw write/close) over <= 3 slots incl. dask-backed slots computed under a simulated schedule with duplicate execution "
            "and slots that are views into guarded caller buffers; deep snapshots of every slot, source buffer and argument object around every step; "
            "non-trivial = at least one observed step; distinct = distinct history-shape digests"),
}

COMPONENTS = {
    "real": ["wavespectra (Python from the working tree, C extension rebuilt from the working tree)", "xarray", "numpy", "scipy", "pandas",
             "dask graph construction / optimisation / dask.order / dask.local.get_async", "gzip / json / netcdf3 codecs", "kernel tmpfs under /dev/shm"],
    "simulated": ["thread pool and choice of who runs (baton scheduler)", "dask completion queue", "raw file layer success/failure (SimRaw)",
                  "uuid4", "numpy global RNG seed", "reference process (pristine fork) as the freshness oracle"],
    "stubs": [],
}
ASSUMPTIONS = [
    "PYTHONHASHSEED pinned to 0; every run executes in a child forked from a zygote that only imported the libraries",
    "bit-exact comparison between a long-lived process and a pristine fork assumes allocation history does not perturb numpy/scipy results (checked by probe, DESIGN 4.2)",
    "pre-emption granularity: Python lines inside wavespectra files and explicit yield points in specpart.c; dependencies run atomically under the baton",
]
PROBES_C18 = ["observed_after_history", "reference_calls", "edits", "native_calls", "agree_checks", "reader_calls"]  # battery_runs stays 0 on a tree without module-level state changes
PROBES_C17 = ["situation.returned", "situation.raised", "situation.deferred", "writes_aborted_by_fault", "writes_acked", "reader_calls", "fault.duplicate"]


def for_property(prop):
    ns = types.SimpleNamespace()
    ns.NAME = NAME
    ns.PROPERTY = prop
    ns.execute = execute
    ns.gen_plan = lambda rng, tier="quick": gen_plan(rng, tier, prop)
    ns.shape = shape
    ns.simplify = simplify
    ns.sample = sample
    ns.NONTRIVIAL_RULE = RULES[prop]
    ns.COMPONENTS = COMPONENTS
    ns.ASSUMPTIONS = ASSUMPTIONS
    ns.PROBES = PROBES_C18 if prop == "C18" else PROBES_C17
    ns.SCHEDULE_DEPENDENT = False
    return ns
