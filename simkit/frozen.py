"""freeze(obj): present contents of an xarray object as plain picklable data (not the object);
thaw(frozen): a freshly constructed object with the same contents, through public constructors."""
import numpy as np


def _plain(v):
    if isinstance(v, np.ndarray):
        return v.copy()
    if isinstance(v, np.generic):
        return v          # immutable; the fresh object must carry the same value *and type*
    if isinstance(v, dict):
        return {k: _plain(x) for k, x in v.items()}
    if isinstance(v, (list, tuple)):
        return type(v)(_plain(x) for x in v) if type(v) in (list, tuple) else [_plain(x) for x in v]
    return v


def _pack(arr):
    """Values plus memory layout (axis order in memory, element step): numpy reductions associate
    differently for different layouts, and layout independence is another property (C05), so the
    fresh object is given the same layout as the one in the history."""
    arr = np.asarray(arr)
    if arr.ndim == 0 or arr.dtype == object or arr.size == 0:
        return {"mem": np.array(arr), "perm": None, "step": 1}
    strides = [abs(s) for s in arr.strides]
    perm = sorted(range(arr.ndim), key=lambda i: (-strides[i], i))
    mem = np.ascontiguousarray(arr.transpose(perm))
    nz = [s for s, n in zip(strides, arr.shape) if n > 1 and s > 0]
    step = (min(nz) // arr.itemsize) if nz else 1
    return {"mem": mem, "perm": perm, "step": max(1, int(step))}


def _unpack(p):
    mem = p["mem"]
    if p["perm"] is None:
        return np.array(mem)
    step = p["step"]
    if step > 1:
        big = np.full(mem.size * step + 32, 0, dtype=mem.dtype)
        base = big[16: 16 + mem.size * step: step].reshape(mem.shape)
        base[...] = mem
    else:
        base = mem.copy()
    inv = np.argsort(p["perm"])
    return base.transpose(inv)


def _freeze_var(name, var):
    data = var.data
    chunks = None
    if hasattr(data, "dask"):
        chunks = var.chunks
        vals = _pack(np.array(var.compute().values))
    else:
        vals = _pack(var.values)
    return {"name": name, "dims": tuple(var.dims), "values": vals, "chunks": chunks,
            "attrs": _plain(dict(var.attrs)), "encoding": _plain(dict(var.encoding))}


def freeze(obj):
    import xarray as xr

    if isinstance(obj, xr.Dataset):
        return {
            "k": "ds",
            "attrs": _plain(dict(obj.attrs)),
            "vars": [_freeze_var(str(n), v.variable) for n, v in obj.data_vars.items()],
            "coords": [_freeze_var(str(n), v.variable) for n, v in obj.coords.items()],
            "index_coords": [str(n) for n in obj.coords if n in obj.dims],
        }
    if isinstance(obj, xr.DataArray):
        return {
            "k": "da",
            "name": obj.name,
            "var": _freeze_var("__data__", obj.variable),
            "coords": [_freeze_var(str(n), v.variable) for n, v in obj.coords.items()],
        }
    if obj is None:
        return None
    raise TypeError(type(obj))


def _thaw_var(f):
    import xarray as xr

    v = xr.Variable(f["dims"], _unpack(f["values"]), attrs=_plain(f["attrs"]))
    v.encoding = _plain(f["encoding"])
    if f["chunks"] is not None:
        v = v.chunk(dict(zip(f["dims"], f["chunks"])))
    return v


def thaw(f):
    import xarray as xr

    if f is None:
        return None
    if f["k"] == "ds":
        coords = {c["name"]: _thaw_var(c) for c in f["coords"]}
        dvars = {v["name"]: _thaw_var(v) for v in f["vars"]}
        return xr.Dataset(data_vars=dvars, coords=coords, attrs=_plain(f["attrs"]))
    coords = {c["name"]: _thaw_var(c) for c in f["coords"]}
    v = _thaw_var(f["var"])
    return xr.DataArray(v.data, dims=v.dims, coords=coords, name=f["name"], attrs=v.attrs)
