"""Greybox probes (never oracles): observations that only steer where extra effort is spent."""
import types


def global_state():
    """Module-level dicts/lists/sets and function defaults of every loaded wavespectra module.
    Not an oracle: a change only triggers extra observed calls (BATTERY) against the reference."""
    import sys

    out = {}
    for name, mod in sorted(sys.modules.items()):
        if not name.startswith("wavespectra") or mod is None:
            continue
        for k, v in sorted(vars(mod).items()):
            if k.startswith("__"):
                continue
            if isinstance(v, (dict, list, set)):
                try:
                    out[f"{name}.{k}"] = repr(v)[:3000]
                except Exception:
                    pass
            fns = []
            if isinstance(v, types.FunctionType) and v.__module__ == name:
                fns = [(k, v)]
            elif isinstance(v, type) and v.__module__ == name:
                fns = [(f"{k}.{n}", f) for n, f in vars(v).items() if isinstance(f, types.FunctionType)]
            for n, f in fns:
                if f.__defaults__ or f.__kwdefaults__:
                    try:
                        out[f"{name}.{n}()"] = repr((f.__defaults__, f.__kwdefaults__))[:3000]
                    except Exception:
                        pass
    # process-global state outside the library's own modules that a call could leave changed
    try:
        import logging
        import os
        import warnings

        import numpy as np

        out["<numpy>.errstate"] = repr(sorted(np.geterr().items()))
        out["<numpy>.printoptions"] = repr(sorted((k, str(v)) for k, v in np.get_printoptions().items()))
        try:
            from xarray.core.options import OPTIONS

            out["<xarray>.options"] = repr(sorted((k, str(v)) for k, v in OPTIONS.items()))
        except Exception:
            pass
        try:
            import dask

            out["<dask>.config"] = repr(sorted((k, str(v)[:200]) for k, v in dask.config.config.items()))
        except Exception:
            pass
        out["<warnings>.filters"] = repr([(f[0], str(f[1]), getattr(f[2], "__name__", str(f[2])), str(f[3]), f[4]) for f in warnings.filters])[:3000]
        out["<os>.cwd"] = os.getcwd()
        out["<os>.environ"] = repr(sorted((k, v) for k, v in os.environ.items() if k != "VERIF_SCRATCH"))[:6000]
        out["<logging>.root"] = f"{logging.root.level}|{len(logging.root.handlers)}|{logging.root.manager.disable}"
    except Exception:
        pass
    return out
