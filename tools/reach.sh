#!/bin/bash
# Reach measurement (not a check): statement/branch coverage of /repo/wavespectra under the four engines.
# usage: tools/reach.sh [runs-per-check]   -> prints a per-file table, writes logs/reach.txt
cd /verif
N=${1:-300}
D=/dev/shm/verif-cov-$$; mkdir -p $D
for p in C07 C18 C17 C11; do
  VERIF_COVERAGE=$D VERIF_LANES=${VERIF_LANES:-12} ./check $p --runs $N --budget 900 --no-evidence 2>&1 | grep "^# C"
done
cd $D && /venv/bin/python -m coverage combine --data-file=$D/cov.all $D/cov.* >/dev/null 2>&1
/venv/bin/python /verif/tools/reach_report.py $D/cov.all ${VERIF_REPO:-/repo} > /verif/logs/reach.txt 2>/dev/null
cat /verif/logs/reach.txt | cut -c1-260
rm -rf $D
