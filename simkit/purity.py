"""Deep snapshots for the purity oracle (C17): value bytes of the whole backing buffer
(including guard zones of views), strides/flags, dims order, coords, attrs, encodings, names;
for lists/dicts their structure, element identity and contents."""
import hashlib
import json

import numpy as np

from .compare import _attr_value


def _h(b):
    return hashlib.blake2b(b, digest_size=8).hexdigest()


def _root(arr):
    base = arr
    while isinstance(getattr(base, "base", None), np.ndarray):
        base = base.base
    return base


def _nd(arr, out, path):
    root = _root(arr)
    try:
        rb = root.tobytes() if root.dtype != object else repr(root.tolist()).encode()
    except Exception:
        rb = repr(root).encode()
    out[path + ".buffer"] = _h(rb)
    out[path + ".layout"] = f"{arr.dtype.str}|{arr.shape}|{arr.strides}|w={arr.flags.writeable}|root={id(root)}|n={root.size}"


def _attrs(d):
    return _h(json.dumps({str(k): _attr_value(v) for k, v in d.items()}, sort_keys=True, default=repr).encode())


def _var(var, out, path):
    out[path + ".dims"] = str(tuple(var.dims))
    out[path + ".attrs"] = _attrs(var.attrs)
    out[path + ".attrs_keys"] = str(list(var.attrs))
    out[path + ".encoding"] = _attrs(var.encoding)
    data = var._data
    if hasattr(data, "dask"):
        out[path + ".dask"] = f"{data.name}|{data.chunks}|{data.dtype}"
        return
    arr = getattr(data, "array", data)
    if isinstance(arr, np.ndarray):
        _nd(arr, out, path)
    else:
        vals = np.asarray(var.values)
        out[path + ".values"] = _h(vals.tobytes() if vals.dtype != object else repr(vals.tolist()).encode()) + f"|{vals.dtype}|{vals.shape}"


def snap(obj, out=None, path="$"):
    """Flat dict path -> digest describing obj completely."""
    import xarray as xr

    out = {} if out is None else out
    if isinstance(obj, xr.Dataset):
        out[path + ".type"] = "Dataset"
        out[path + ".attrs"] = _attrs(obj.attrs)
        out[path + ".encoding"] = _attrs(obj.encoding)
        out[path + ".sizes"] = str(list(obj.sizes.items()))
        out[path + ".data_vars"] = str(list(obj.data_vars))
        out[path + ".coords"] = str(list(obj.coords))
        for n in obj.variables:
            _var(obj.variables[n], out, f"{path}[{n}]")
    elif isinstance(obj, xr.DataArray):
        out[path + ".type"] = "DataArray"
        out[path + ".name"] = repr(obj.name)
        out[path + ".coords"] = str(list(obj.coords))
        _var(obj.variable, out, path + "[data]")
        for n in obj.coords:
            _var(obj.coords[n].variable, out, f"{path}[{n}]")
    elif isinstance(obj, np.ndarray):
        out[path + ".type"] = "ndarray"
        _nd(obj, out, path)
    elif isinstance(obj, dict):
        out[path + ".type"] = f"dict|{id(obj)}|{list(obj)}"
        for k, v in obj.items():
            snap(v, out, f"{path}.{k}")
    elif isinstance(obj, (list, tuple)):
        out[path + ".type"] = f"{type(obj).__name__}|{id(obj)}|{len(obj)}"
        for i, v in enumerate(obj):
            snap(v, out, f"{path}[{i}]")
    else:
        out[path] = f"{type(obj).__name__}:{obj!r}"[:200]
    return out


def diff(a, b):
    """First differing component between two snapshots, or None."""
    for k in a:
        if k not in b:
            return k, a[k], "<missing>"
        if a[k] != b[k]:
            return k, a[k], b[k]
    for k in b:
        if k not in a:
            return k, "<missing>", b[k]
    return None
