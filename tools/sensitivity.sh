#!/bin/bash
# Sensitivity sweep: every own mutant and every seeded change against the check of its property.
# usage: tools/sensitivity.sh [--baseline] [name ...]     output: one line per change
cd ${VERIF_ROOT:-/verif}
declare -A PROP=( [gil_release]=C07 [ptm3_no_allow_rechunk]=C07 [imo_init_removed]=C18 [to_ww3_no_deepcopy]=C17
  [stack_dims_shallow_copy]=C17 [to_netcdf_no_deepcopy]=C17 [to_swan_append_mode]=C11 [to_octopus_swallow_oserror]=C11
  [to_swan_no_close]=C11 [json_partial_on_error]=C11 [swan_write_retry_once]=C11 )
BASE=0; [ "$1" = "--baseline" ] && { BASE=1; shift; }
names=("$@")
if [ ${#names[@]} -eq 0 ]; then
  for f in mutants/*.diff; do names+=("$(basename $f .diff)"); done
  for d in seeded/*/; do names+=("$(basename $d)"); done
fi
for n in "${names[@]}"; do
  if [ -f mutants/$n.diff ]; then patch=mutants/$n.diff; prop=${PROP[$n]}; else patch=seeded/$n/patch.diff; prop=$(echo $n | cut -c1-3 | tr a-z A-Z); fi
  [ -z "$prop" ] && { echo "$n: unknown property"; continue; }
  W=/dev/shm/ws-sens-$$
  git -C /repo worktree add -q --detach $W HEAD || continue
  if ! ( cd $W && git apply "${VERIF_ROOT:-/verif}/$patch" ); then echo "$n ($prop): patch does not apply to HEAD"; git -C /repo worktree remove --force $W; continue; fi
  b="-"
  if [ $BASE = 1 ]; then ( cd $W && /venv/bin/python setup.py build_ext --inplace >/dev/null 2>&1 ); b=$(tools/baseline.sh $W | head -1 | cut -d' ' -f2); fi
  t0=$(date +%s)
  out=$(VERIF_REPO=$W ./check $prop --tier quick --no-evidence 2>&1); rc=$?
  t1=$(date +%s)
  nv=$(echo "$out" | grep -c "^VIOLATION")
  first=$(echo "$out" | grep -m1 "^  $prop/" | cut -c1-110)
  echo "$n ($prop): exit=$rc violations=$nv baseline=$b wall=$((t1-t0))s first:$first"
  git -C /repo worktree remove --force $W
done
