"""Entry point of a run executed in a newly started interpreter (lanes.run_fresh).

Used for plans whose outcome can depend on *which addresses the allocator hands out* (state keyed on id() of
objects that no longer exist): a child forked from a lane inherits that lane's heap, a replay child another
one, and the reuse pattern differs.  A fresh interpreter with a pinned hash seed, a fixed-width argument and a
fixed environment performs the same allocation sequence every time, so the run replays."""
import faulthandler
import importlib
import json
import os
import sys


def main(path):
    with open(path) as f:
        job = json.load(f)
    faulthandler.dump_traceback_later(float(job.get("timeout", 120)), exit=True)
    from simkit import build, lanes

    lanes._limit_memory()
    build.preload()
    fn = getattr(importlib.import_module(job["module"]), job["name"])
    try:
        res = fn(job["arg"])
    except BaseException as exc:  # harness failure, never a verdict
        import traceback

        res = {"outcome": "harness", "error": f"{type(exc).__name__}: {exc}", "traceback": traceback.format_exc()[-4000:]}
    sys.stdout.write("\nRESULT " + json.dumps(res) + "\n")
    sys.stdout.flush()
    os._exit(0)


if __name__ == "__main__":
    main(sys.argv[1])
