"""Process model: pristine zygote, lanes, one forked child per run.

The calling (parent) process imports numpy/xarray/dask/scipy/wavespectra once and never
executes a wavespectra call; it is the zygote.  `sweep` forks L lane processes; each lane
takes run indices from a shared ticket pipe and executes every run in its own forked child
that ends with os._exit, because the C static buffers, attrs.ATTRS, warnings.filters,
accessor caches and numpy's RNG are process-global: a run that started from the leftovers
of the previous one would not replay on its own.  Results come back as JSON over pipes and
are merged in index order, so verdicts do not depend on the lane count.
"""
import faulthandler
import fcntl
import json
import os
import select
import signal
import struct
import sys
import time
import traceback

F_SETPIPE_SZ = 1031
RUN_TIMEOUT = float(os.environ.get("VERIF_RUN_TIMEOUT", "120"))


RUN_MEM_LIMIT = int(float(os.environ.get("VERIF_RUN_MEM_GB", "3")) * (1 << 30))


def top_scratch():
    """Scratch root of the whole check (created by the top-level process, removed at its end)."""
    d = os.environ.get("VERIF_SCRATCH")
    if not d:
        d = "/dev/shm/wsverif-%d" % os.getpid()
        os.environ["VERIF_SCRATCH"] = d
    os.makedirs(d, exist_ok=True)
    return d


def scratch_root():
    """Scratch directory of the calling run child; removed by its parent when the run is over."""
    d = os.path.join(top_scratch(), "r%d" % os.getpid())
    os.makedirs(d, exist_ok=True)
    return d


def remove_scratch(path=None):
    import shutil

    shutil.rmtree(path or top_scratch(), ignore_errors=True)
    if path is None:
        # scratch of fresh-interpreter runs whose starter was killed before it could clean up (name = pid + counter)
        import glob

        for d in glob.glob("/dev/shm/wsverif-fresh-*"):
            try:
                pid = int(os.path.basename(d)[len("wsverif-fresh-"):][:7])
            except ValueError:
                continue
            if not os.path.exists("/proc/%d" % pid):
                shutil.rmtree(d, ignore_errors=True)


def _limit_memory():
    """A run that runs away (e.g. a mutant corrupting the native work buffers) must not take the machine down."""
    try:
        import resource

        resource.setrlimit(resource.RLIMIT_AS, (RUN_MEM_LIMIT + (2 << 30), RUN_MEM_LIMIT + (2 << 30)))
        resource.setrlimit(resource.RLIMIT_DATA, (RUN_MEM_LIMIT, RUN_MEM_LIMIT))
    except (ImportError, ValueError, OSError):
        pass


def _write_all(fd, data):
    view = memoryview(data)
    while view:
        n = os.write(fd, view)
        view = view[n:]


def _read_exact(fd, n):
    buf = b""
    while len(buf) < n:
        chunk = os.read(fd, n - len(buf))
        if not chunk:
            return None
        buf += chunk
    return buf


def send_msg(fd, obj):
    data = json.dumps(obj, default=_json_default).encode()
    _write_all(fd, struct.pack("<I", len(data)) + data)


def recv_msg(fd):
    head = _read_exact(fd, 4)
    if head is None:
        return None
    body = _read_exact(fd, struct.unpack("<I", head)[0])
    if body is None:
        return None
    return json.loads(body)


def _json_default(o):
    try:
        import numpy as np

        if isinstance(o, np.generic):
            return o.item()
        if isinstance(o, np.ndarray):
            return o.tolist()
    except Exception:
        pass
    return str(o)


_FRESH_N = [0]
_SETARCH = []


def _setarch_works():
    """`setarch <machine> -R` present and permitted here (the personality call can be filtered in a sandbox)."""
    if not _SETARCH:
        import subprocess

        ok = False
        if os.path.exists("/usr/bin/setarch"):
            try:
                ok = subprocess.run(["/usr/bin/setarch", os.uname().machine, "-R", "/bin/true"], stdout=subprocess.DEVNULL,
                                    stderr=subprocess.DEVNULL, timeout=20).returncode == 0
            except (OSError, subprocess.SubprocessError):
                ok = False
        _SETARCH.append(ok)
    return _SETARCH[0]


def run_fresh(fn, arg, timeout=None):
    """Run fn(arg) in a newly exec'd interpreter (see simkit/freshrun.py) and return its result."""
    import shutil
    import subprocess

    timeout = timeout or RUN_TIMEOUT
    _FRESH_N[0] += 1
    # fixed-width names and a fixed environment: the child's start-up allocations must not depend on who started it
    tag = "%07d%04d" % (os.getpid() % 10**7, _FRESH_N[0] % 10**4)
    sdir = "/dev/shm/wsverif-fresh-" + tag
    os.makedirs(sdir, exist_ok=True)
    path = os.path.join(sdir, "job.json")
    with open(path, "w") as f:
        json.dump({"module": fn.__module__, "name": fn.__name__, "arg": arg, "timeout": timeout}, f)
    root = os.path.dirname(os.path.dirname(os.path.abspath(__file__)))
    env = {"PATH": "/usr/bin:/bin", "HOME": "/root", "PYTHONHASHSEED": os.environ.get("VERIF_HASHSEED", "0"), "VERIF_SCRATCH": sdir, "PYTHONWARNINGS": "ignore",
           "VERIF_REPO": os.environ.get("VERIF_REPO", "/repo"), "PYTHONDONTWRITEBYTECODE": "1", "OMP_NUM_THREADS": "1",
           "OPENBLAS_NUM_THREADS": "1", "MKL_NUM_THREADS": "1"}
    try:
        cmd = [sys.executable, "-m", "simkit.freshrun", path]
        if _setarch_works():
            # no address-space randomisation: the same allocation sequence then yields the same addresses, so even state
            # keyed on id() of dead objects behaves identically in the sweep, the confirmation and the replay
            cmd = ["/usr/bin/setarch", os.uname().machine, "-R"] + cmd
        p = subprocess.Popen(cmd, cwd=root, env=env, stdout=subprocess.PIPE,
                             stderr=subprocess.DEVNULL, start_new_session=True)
        try:
            out, _ = p.communicate(timeout=timeout + 60)
        except subprocess.TimeoutExpired:
            try:
                os.killpg(p.pid, signal.SIGKILL)
            except OSError:
                pass
            p.wait()
            return {"outcome": "harness", "error": "HARNESS-TIMEOUT (fresh interpreter)"}
        try:
            os.killpg(p.pid, signal.SIGKILL)      # helper processes of the run (reference server)
        except OSError:
            pass
        for line in reversed(out.decode("utf-8", "replace").splitlines()):
            if line.startswith("RESULT "):
                return json.loads(line[7:])
        return {"outcome": "harness", "error": f"fresh interpreter ended without a result (exit {p.returncode})"}
    finally:
        shutil.rmtree(sdir, ignore_errors=True)


def run_in_child(fn, arg, timeout=None):
    """Fork, run fn(arg) in the child, return its JSON-able result (or a harness record)."""
    timeout = timeout or RUN_TIMEOUT
    if isinstance(arg, dict) and isinstance(arg.get("plan"), dict) and arg["plan"].get("fresh_process"):
        return run_fresh(fn, arg, timeout)
    r, w = os.pipe()
    sys.stdout.flush()
    sys.stderr.flush()
    pid = os.fork()
    if pid == 0:
        code = 0
        try:
            os.close(r)
            try:
                os.setpgid(0, 0)
            except OSError:
                pass
            faulthandler.dump_traceback_later(timeout, exit=True)
            _limit_memory()
            cov = None
            if os.environ.get("VERIF_COVERAGE"):     # reach measurement only (tools/reach.sh); never set by a registered command
                import coverage

                cov = coverage.Coverage(data_file=os.path.join(os.environ["VERIF_COVERAGE"], "cov"), data_suffix=True, branch=True,
                                        include=[os.path.join(os.environ.get("VERIF_REPO", "/repo"), "wavespectra", "*")])
                cov.start()
            try:
                res = fn(arg)
            except BaseException as exc:  # harness failure, never a verdict
                res = {
                    "outcome": "harness",
                    "error": f"{type(exc).__name__}: {exc}",
                    "traceback": traceback.format_exc()[-4000:],
                }
            if cov is not None:
                cov.stop()
                cov.save()
            send_msg(w, res)
        except BaseException:
            code = 3
        finally:
            os._exit(code)
    os.close(w)
    child_scratch = os.path.join(top_scratch(), "r%d" % pid)
    deadline = time.monotonic() + timeout + 10
    res = None
    buf = b""
    try:
        while True:
            left = deadline - time.monotonic()
            if left <= 0:
                break
            ready, _, _ = select.select([r], [], [], min(left, 1.0))
            if ready:
                chunk = os.read(r, 1 << 16)
                if not chunk:
                    break
                buf += chunk
                if len(buf) >= 4:
                    need = struct.unpack("<I", buf[:4])[0]
                    if len(buf) >= 4 + need:
                        res = json.loads(buf[4 : 4 + need])
                        break
    finally:
        os.close(r)
    if res is None:
        try:
            os.killpg(pid, signal.SIGKILL)
        except OSError:
            try:
                os.kill(pid, signal.SIGKILL)
            except OSError:
                pass
        _, status = os.waitpid(pid, 0)
        remove_scratch(child_scratch)
        return {"outcome": "harness", "error": f"HARNESS-TIMEOUT or crash (wait status {status})"}
    # reap; the child may still own helper processes in its group (reference server)
    try:
        _, status = os.waitpid(pid, 0)
    except ChildProcessError:
        status = 0
    try:
        os.killpg(pid, signal.SIGKILL)
    except OSError:
        pass
    remove_scratch(child_scratch)
    return res


def _lane_main(lane, ticket_r, out_w, fn, make_arg, deadline):
    try:
        while True:
            if deadline is not None and time.monotonic() > deadline:
                break
            tok = os.read(ticket_r, 8)
            if len(tok) < 8:
                break
            (index,) = struct.unpack("<q", tok)
            if index < 0:
                break
            t0 = time.monotonic()
            try:
                arg = make_arg(index)
            except BaseException as exc:  # plan generation failed: harness error for this index, lane lives on
                res = {"outcome": "harness", "error": f"make_arg: {type(exc).__name__}: {exc}",
                       "traceback": traceback.format_exc()[-3000:]}
            else:
                res = run_in_child(fn, arg)
            res["index"] = index
            res["lane"] = lane
            res["wall_s"] = round(time.monotonic() - t0, 4)
            send_msg(out_w, res)
    except BaseException:
        traceback.print_exc()
        sys.stderr.flush()
    finally:
        os._exit(0)


def sweep(fn, make_arg, indices, lanes=None, budget_s=None, progress=None):
    """Run fn(make_arg(i)) for i in indices, each in its own forked child; returns {i: result}.

    Stops handing out new indices after budget_s seconds (the runs already started finish).
    """
    lanes = lanes or int(os.environ.get("VERIF_LANES", "0")) or min(16, os.cpu_count() or 1)
    indices = list(indices)
    ticket_r, ticket_w = os.pipe()
    try:
        fcntl.fcntl(ticket_w, F_SETPIPE_SZ, 1 << 20)
    except OSError:
        pass
    deadline = None if budget_s is None else time.monotonic() + budget_s
    pids, outs = [], {}
    sys.stdout.flush()
    sys.stderr.flush()
    for lane in range(lanes):
        r, w = os.pipe()
        pid = os.fork()
        if pid == 0:
            os.close(r)
            os.close(ticket_w)
            for fd in outs:
                os.close(fd)
            _lane_main(lane, ticket_r, w, fn, make_arg, deadline)
        os.close(w)
        outs[r] = lane
        pids.append(pid)
    os.close(ticket_r)
    pending = list(indices) + [-1] * lanes
    results = {}
    os.set_blocking(ticket_w, False)
    bufs = {fd: b"" for fd in outs}
    while outs:
        wl = [ticket_w] if pending else []
        rl, wr, _ = select.select(list(outs), wl, [], 1.0)
        if wr:
            try:
                while pending:
                    os.write(ticket_w, struct.pack("<q", pending[0]))
                    pending.pop(0)
            except BlockingIOError:
                pass
            if not pending:
                os.close(ticket_w)
                ticket_w = None
        for fd in rl:
            chunk = os.read(fd, 1 << 16)
            if not chunk:
                os.close(fd)
                del outs[fd]
                continue
            bufs[fd] += chunk
            while len(bufs[fd]) >= 4:
                need = struct.unpack("<I", bufs[fd][:4])[0]
                if len(bufs[fd]) < 4 + need:
                    break
                res = json.loads(bufs[fd][4 : 4 + need])
                bufs[fd] = bufs[fd][4 + need :]
                results[res["index"]] = res
                if progress:
                    progress(res)
    if ticket_w is not None:
        os.close(ticket_w)
    for pid in pids:
        try:
            os.waitpid(pid, 0)
        except ChildProcessError:
            pass
    return results
