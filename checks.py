#!/venv/bin/python
"""Entry point: ./check <property id> [--tier quick|thorough] [--replay FILE]  (see DESIGN.md §6)."""
import os
import sys

sys.path.insert(0, os.path.dirname(os.path.abspath(__file__)))

TIERS = {
    "C07": {"quick": {"runs": 2000, "budget_s": 70}, "thorough": {"runs": 60000, "budget_s": 1500}},
    "C18": {"quick": {"runs": 700, "budget_s": 75}, "thorough": {"runs": 20000, "budget_s": 1500}},
    "C17": {"quick": {"runs": 900, "budget_s": 75}, "thorough": {"runs": 25000, "budget_s": 1500}},
    "C11": {"quick": {"runs": 1500, "budget_s": 70}, "thorough": {"runs": 40000, "budget_s": 1500}},
}


def main():
    if len(sys.argv) < 2:
        print(__doc__)
        return 2
    prop = sys.argv[1]
    argv = sys.argv[2:]
    from simkit import report

    if prop == "selftest":
        from simkit import selftest

        return selftest.main(argv)
    report.reexec_pinned()
    if prop == "C07":
        from engines import schedsim as eng
    elif prop in ("C17", "C18"):
        from engines import histsim as eng
    elif prop == "C11":
        from engines import fssim as eng
    else:
        print(f"property {prop} is not claimed (see MANIFEST.json not_applicable)")
        return 2
    if hasattr(eng, "for_property"):
        eng = eng.for_property(prop)
    from simkit import lanes

    lanes.top_scratch()
    try:
        return report.check_main(eng, prop, TIERS[prop], argv)
    finally:
        lanes.remove_scratch()


if __name__ == "__main__":
    rc = main()
    sys.stdout.flush()
    os._exit(rc if isinstance(rc, int) else 0)
