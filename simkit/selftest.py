"""Self-tests of the machinery (not property checks).

  ./check selftest determinism [--props C07,C18,...] [--runs N]
      every run index is executed in fresh interpreters with 16 lanes, with 4 lanes, and once
      more under another PYTHONHASHSEED; (outcome, plan shape, tape digest, event-log digest,
      violation signatures) must be identical between the two lane counts (hard failure) and is
      reported per workload for the other hash seed (informational, see DESIGN 2.2).
"""
import argparse
import os
import subprocess
import sys
import tempfile

VERIF = os.path.dirname(os.path.dirname(os.path.abspath(__file__)))


def _run(prop, runs, lanes, hashseed, out, first=0):
    env = dict(os.environ)
    env.update({"VERIF_LANES": str(lanes), "VERIF_HASHSEED": str(hashseed), "PYTHONHASHSEED": str(hashseed)})
    cmd = [sys.executable, os.path.join(VERIF, "checks.py"), prop, "--runs", str(runs), "--budget", "100000",
           "--no-evidence", "--digests", out, "--first", str(first)]
    env["VERIF_NO_MINIMISE"] = "1"
    p = subprocess.run(cmd, env=env, capture_output=True, text=True)
    return p.returncode, p.stdout[-2000:] + p.stderr[-2000:]


def _load(path):
    d = {}
    with open(path) as f:
        for line in f:
            parts = line.rstrip("\n").split(" ", 1)
            d[int(parts[0])] = parts[1]
    return d


def determinism(props, runs):
    ok = True
    for prop in props:
        with tempfile.TemporaryDirectory(dir="/dev/shm") as td:
            files = {}
            for tag, lanes, hs in (("L16", 16, 0), ("L4", 4, 0), ("H12345", 16, 12345)):
                out = os.path.join(td, tag)
                rc, tail = _run(prop, runs, lanes, hs, out)
                if not os.path.exists(out):
                    print(f"selftest {prop} {tag}: no digest file (exit {rc})\n{tail}")
                    ok = False
                    continue
                files[tag] = _load(out)
            if "L16" not in files or "L4" not in files:
                ok = False
                continue
            a, b = files["L16"], files["L4"]
            diff = [i for i in sorted(a) if a.get(i) != b.get(i)]
            print(f"selftest determinism {prop}: {len(a)} runs x 2 lane counts, fresh interpreters: {len(diff)} divergent")
            for i in diff[:5]:
                print(f"   run {i}:\n     L16 {a.get(i)}\n     L4  {b.get(i)}")
            if diff or len(a) != len(b):
                ok = False
            if "H12345" in files:
                c = files["H12345"]
                d2 = [i for i in sorted(a) if a.get(i) != c.get(i)]
                verdict_diff = [i for i in d2 if a[i].split(" ")[0] != c.get(i, "?").split(" ")[0]]
                print(f"   under PYTHONHASHSEED=12345: {len(d2)} of {len(a)} runs have a different event log "
                      f"(informational; hash seed is pinned to 0 in every replay file), {len(verdict_diff)} differ in outcome")
                for i in verdict_diff[:5]:
                    print(f"   outcome differs, run {i}:\n     H0     {a.get(i)}\n     H12345 {c.get(i)}")
                if verdict_diff:
                    ok = False
    return ok


def main(argv):
    ap = argparse.ArgumentParser(prog="check selftest")
    ap.add_argument("what", choices=["determinism"])
    ap.add_argument("--props", default="C07,C18,C17,C11")
    ap.add_argument("--runs", type=int, default=200)
    args = ap.parse_args(argv)
    props = [p for p in args.props.split(",") if p]
    ok = determinism(props, args.runs)
    print("selftest", "PASSED" if ok else "FAILED")
    return 0 if ok else 1
