"""Catalogue of public wavespectra operations as JSON descriptors, shared by the engines.

op = {"m": <name>, "via": "da"|"ds", "kw": {...}}   (plus op-specific keys, see apply_op)
"""
import numpy as np

# name -> tolerance class for the chunked-vs-in-memory comparison (C07 clause 2)
#   "exact": same arithmetic per element whatever the chunking -> bit-identical
#   "sum":   a reduction may cross chunk boundaries -> reassociation tolerance
#   "cancel": square root of a difference of nearly equal moments -> looser tolerance
#   "fit":   nonlinear least squares, optimiser termination tolerance
SIMPLE_STATS = {
    "hs": "sum", "hrms": "sum", "hmax": "sum", "tm01": "sum", "tm02": "sum", "dm": "sum",
    "dspr": "cancel", "swe": "cancel", "sw": "cancel", "gw": "cancel", "goda": "sum",
    "tp": "sum", "fp": "sum", "dp": "sum", "dpm": "sum", "dpspr": "cancel", "alpha": "sum",
    "gamma": "sum", "uss_x": "sum", "uss_y": "sum", "uss": "sum", "mss": "sum", "crsd": "sum",
    "to_energy": "exact", "oned": "sum", "fdspr": "cancel",
}
PARTITIONS = ("ptm1", "ptm2", "ptm3", "ptm4", "ptm5", "bbox", "hp01", "ptm1_track")
NEEDS_DIR = {
    "dm", "dspr", "dp", "dpm", "dpspr", "uss_x", "uss_y", "uss", "crsd", "fdspr", "momd", "rotate",
    "smooth", "ptm1", "ptm2", "ptm3", "ptm4", "ptm5", "bbox", "hp01", "ptm1_track",
}


def tol_class(op):
    m = op["m"]
    if m in SIMPLE_STATS:
        return SIMPLE_STATS[m]
    if m in ("ptm1", "ptm2", "ptm3", "ptm4", "bbox", "hp01", "split"):
        return "exact"
    if m in ("ptm5",):
        return "sum" if op.get("kw", {}).get("interpolate", True) else "exact"
    if m in ("fit_jonswap", "fit_gaussian"):
        return "fit"
    if m == "stats":
        names = op["stats"]
        classes = {SIMPLE_STATS.get(n, "sum") for n in names}
        return "cancel" if "cancel" in classes else "sum"
    if m == "smooth":
        return "sum"
    return "sum"


def _target(ds, via):
    import xarray as xr

    if isinstance(ds, xr.DataArray):
        return ds.spec
    return ds.spec if via == "ds" else ds["efth"].spec


def apply_op(ds, op, aux=None, args=None):
    """Apply op to ds (Dataset, or DataArray with winds in aux); numpy- or dask-backed.

    `args` optionally maps argument names to caller-owned objects (lists, dicts, arrays) that
    are passed as they are instead of being rebuilt from the descriptor."""
    m = op["m"]
    kw = dict(op.get("kw", {}))
    via = op.get("via", "da")
    spec = _target(ds, via)
    args = args or {}
    wsrc = aux if aux is not None else ds
    if op.get("scalar_winds"):
        wsrc = {"wspd": 12.5, "wdir": 215.0, "dpt": 35.0}   # plain floats instead of DataArrays
    if kw.get("depth") == "dpt":
        kw["depth"] = wsrc["dpt"]           # water depth given as the dataset's own DataArray
    if m in SIMPLE_STATS or m in ("momf", "celerity", "wavelen"):
        return getattr(spec, m)(**kw)
    if m == "momd":
        return getattr(spec, m)(**kw)
    if m == "stats":
        if "names" in op:
            kw["names"] = args.get("names", list(op["names"]))
        if op.get("stats_kw"):
            # dictionary form: {stat: kwargs}; the dictionary is the caller's object
            return spec.stats(args.get("stats", {n: dict(op["stats_kw"].get(n, {})) for n in op["stats"]}), **kw)
        return spec.stats(args.get("stats", list(op["stats"])), **kw)
    if m == "split":
        return spec.split(**kw)
    if m == "smooth":
        return spec.smooth(**kw)
    if m == "rotate":
        return spec.rotate(**kw)
    if m == "scale_by_hs":
        return spec.scale_by_hs(op["expr"], **kw)
    if m == "interp_like":
        return spec.interp_like(args["other"], **kw)
    if m == "rmse":
        other = args.get("other")
        if other is None:
            import xarray as xr

            e = ds if isinstance(ds, xr.DataArray) else ds["efth"]
            other = (e * op.get("factor", 1.25) + op.get("shift", 0.5)).rename(e.name)   # same backing as the spectra themselves
        return spec.rmse(other)
    if m == "interp":
        freq = args["freq"] if "freq" in args else (None if op.get("freq") is None else np.asarray(op["freq"], dtype=float))
        dirs = args["dir"] if "dir" in args else (None if op.get("dir") is None else np.asarray(op["dir"], dtype=float))
        return spec.interp(freq=freq, dir=dirs, **kw)
    if m in ("fit_jonswap", "fit_gaussian"):
        return getattr(spec, m)(**kw)
    if m in PARTITIONS:
        part = spec.partition
        if m in ("ptm1", "ptm2", "ptm4", "ptm1_track"):
            return getattr(part, m)(wspd=wsrc["wspd"], wdir=wsrc["wdir"], dpt=wsrc["dpt"], **kw)
        if m == "hp01":
            if op.get("winds", True):
                return part.hp01(wspd=wsrc["wspd"], wdir=wsrc["wdir"], dpt=wsrc["dpt"], **kw)
            return part.hp01(**kw)
        if m == "ptm3":
            return part.ptm3(**kw)
        if m == "ptm5":
            return part.ptm5(**kw)
        if m == "bbox":
            return part.bbox(args.get("bboxes", [dict(b) for b in op["bboxes"]]))
    if m == "reconstruct":
        from wavespectra.construct import partition_and_reconstruct

        return partition_and_reconstruct(ds, parts=op["parts"], partition_method=op["method"], **kw)
    if m == "plot":
        import matplotlib

        matplotlib.use("Agg")
        import matplotlib.pyplot as plt

        if "subplot_kws" in args:
            kw["subplot_kws"] = args["subplot_kws"]      # pass-through keyword dictionary owned by the caller
        try:
            spec.plot(**kw)
        finally:
            plt.close("all")
        return None
    if m == "sel":
        lons = args.get("lons", list(op["lons"]))
        lats = args.get("lats", list(op["lats"]))
        if op.get("dset_lonlat"):
            # station positions handed over by the caller ("could help improve speed")
            kw["dset_lons"] = args["dset_lons"] if "dset_lons" in args else np.array(ds["lon"].values)
            kw["dset_lats"] = args["dset_lats"] if "dset_lats" in args else np.array(ds["lat"].values)
        return ds.spec.sel(lons, lats, **kw)

    raise ValueError(f"unknown op {m}")


def gen_op(rng, recipe, pool="all"):
    """Draw an op descriptor applicable to the dataset described by recipe."""
    nf, nd = recipe["nf"], recipe.get("nd", 0)
    has_dir = nd > 0
    fr = None
    groups = []
    if pool in ("all", "stats"):
        groups += ["stat"] * 6 + ["stat_kw", "stats", "split", "scale", "depthfn", "rmse"]
    if pool in ("all", "transform") and has_dir:
        groups += ["smooth", "rotate", "interp"]
    if pool in ("all", "partition") and has_dir and nd >= 3 and nf >= 3:
        groups += ["ptm123"] * 4 + ["ptm45", "bbox", "hp01"]
        if pool == "partition" and any(k in ("time", "site") for k, _ in recipe.get("dims", [])):
            groups += ["recon"]
    if pool in ("all", "fit"):
        groups += ["fit"] * 2
    if pool in ("all", "stats", "transform") and any(k == "site" for k, _ in recipe.get("dims", [])):
        groups += ["sel"] * 2
    if not groups:
        groups = ["stat"] * 6 + ["stat_kw", "stats", "split", "scale"]
    g = rng.choice(groups)
    via = rng.choice(["da", "ds"])
    from .data import make_freq

    freqs = make_freq(nf, recipe.get("freq", {}))
    fmid = float(np.round(0.5 * (freqs[0] + freqs[-1]), 4))
    if g == "sel":
        from .data import site_coords

        slon, slat = site_coords(recipe)
        n = rng.randint(1, 3)
        method = rng.choice(["idw", "nearest", "bbox"])
        lons = [round(float(slon[rng.randrange(len(slon))]) + rng.choice([0.0, 0.3, -0.2]), 3) for _ in range(n)]
        lats = [round(float(slat[rng.randrange(len(slat))]) + rng.choice([0.0, 0.25, -0.1]), 3) for _ in range(n)]
        op = {"m": "sel", "via": "ds", "lons": lons, "lats": lats, "kw": {"method": method, "tolerance": rng.choice([2.0, 10.0])}}
        if method == "nearest" and rng.random() < 0.5:
            op["kw"].update(rng.choice([{"unique": True}, {"exact": True}, {"missing": "ignore", "tolerance": 0.05}, {"tolerance": 0.05}]))
            if op["kw"].get("exact"):
                op["lons"] = [round(float(slon[rng.randrange(len(slon))]), 3) for _ in range(n)]
                op["lats"] = [round(float(slat[i]), 3) for i in [list(np.round(slon, 3)).index(x) for x in op["lons"]]]
        if method is not None and rng.random() < 0.1:
            op["kw"]["method"] = None       # only exact matches
        if rng.random() < 0.2:
            op["dset_lonlat"] = True
        return op
    if g == "stat":
        names = [n for n in SIMPLE_STATS if has_dir or n not in NEEDS_DIR]
        return {"m": rng.choice(names), "via": via}
    if g == "rmse":
        return {"m": "rmse", "via": via, "factor": rng.choice([1.25, 0.5, 1.0]), "shift": rng.choice([0.5, 0.0])}
    if g == "depthfn":
        # statistics that take the water depth: a number, or the dataset's own depth variable
        m = rng.choice(["celerity", "celerity", "wavelen"] + (["uss_x", "mss"] if has_dir else ["mss"]))
        depth = rng.choice(["dpt", "dpt", 25.0, 3000.0]) if m in ("celerity", "wavelen") else rng.choice([15.0, 2500.0])
        return {"m": m, "via": via, "kw": {"depth": depth}}
    if g == "stat_kw":
        c = rng.choice(["hs", "tp", "momf", "momd", "alpha", "gamma", "fdspr", "mss", "celerity", "celerity", "uss"])
        if c == "celerity":
            return {"m": rng.choice(["celerity", "wavelen"]), "via": via, "kw": {"depth": rng.choice(["dpt", "dpt", 25.0, 3000.0])}}
        if c == "uss" and has_dir:
            return {"m": rng.choice(["uss", "uss_x", "uss_y"]), "via": via, "kw": {"depth": rng.choice([15.0, 2500.0])}}
        if c == "hs":
            return {"m": "hs", "via": via, "kw": {"tail": False}}
        if c == "tp":
            return {"m": rng.choice(["tp", "fp"]), "via": via, "kw": {"smooth": False}}
        if c == "momf":
            return {"m": "momf", "via": via, "kw": {"mom": rng.choice([0, 1, 2, 4])}}
        if c == "momd" and has_dir:
            return {"m": "momd", "via": via, "kw": {"mom": rng.choice([0, 1, 2]), "theta": rng.choice([90.0, 0.0, 45.0])}}
        if c == "alpha":
            return {"m": "alpha", "via": via, "kw": {"smooth": False}}
        if c == "gamma":
            return {"m": "gamma", "via": via, "kw": {"smooth": rng.random() < 0.5, "scaled": rng.random() < 0.5}}
        if c == "fdspr" and has_dir:
            return {"m": "fdspr", "via": via, "kw": {"mom": rng.choice([1, 2])}}
        return {"m": "mss", "via": via, "kw": {"depth": rng.choice([10.0, 50.0])}}
    if g == "stats":
        # any statistic may appear in a stats() list, also those whose value depends on more than one spectrum's bins
        # (hmax: duration from the time axis)
        names = [n for n in ("hs", "tp", "dpm", "tm01", "tm02", "dm", "dspr", "fp", "dp", "gamma", "sw", "alpha", "dpspr",
                             "hmax", "hrms", "goda", "swe", "gw", "crsd", "mss", "uss") if has_dir or n not in NEEDS_DIR]
        k = rng.randint(2, 4)
        chosen = rng.sample(names, min(k, len(names)))
        kw = {}
        if rng.random() < 0.5:
            f1 = freqs[min(1, nf - 1)]
            kw["fmin"] = float(np.round(freqs[0] + 0.3 * (f1 - freqs[0]), 5)) if rng.random() < 0.5 else float(f1)
        if rng.random() < 0.4:
            kw["fmax"] = fmid
        if has_dir and rng.random() < 0.3:
            kw["dmin"], kw["dmax"] = 45.0, 270.0
        if "fmin" in kw and "fmax" in kw and kw["fmax"] <= kw["fmin"]:
            del kw["fmax"]
        op = {"m": "stats", "via": via, "stats": chosen, "kw": kw}
        if rng.random() < 0.3:
            allowed = {"hs": {"tail": False}, "tp": {"smooth": False}, "fp": {"smooth": False}, "gamma": {"scaled": False}, "alpha": {"smooth": False}}
            op["stats_kw"] = {n: allowed[n] for n in chosen if n in allowed and rng.random() < 0.7}
            if not op["stats_kw"]:
                op["stats_kw"] = {chosen[0]: {}}
        if rng.random() < 0.25:
            op["names"] = [f"{n}_x" for n in chosen]
        return op
    if g == "split":
        kw = {}
        r = rng.random()
        if r < 0.4:
            kw["fmin"] = fmid
        elif r < 0.8:
            kw["fmax"] = fmid
        else:
            kw["fmin"], kw["fmax"] = float(freqs[0]) + 1e-3, float(freqs[-1]) - 1e-3
        if has_dir and rng.random() < 0.4:
            kw["dmin"], kw["dmax"] = rng.choice([(30.0, 200.0), (90.0, 359.0), (0.5, 180.0)])
        if "fmin" in kw and "fmax" in kw and kw["fmax"] <= kw["fmin"]:
            del kw["fmax"]
        if rng.random() < 0.2:
            kw["rechunk"] = False
        return {"m": "split", "via": via, "kw": kw}
    if g == "scale":
        kw = {}
        r = rng.random()
        if r < 0.3:
            kw["hs_min"] = 0.5
        elif r < 0.6:
            kw["tp_max"] = 12.0
        elif r < 0.8 and has_dir:
            kw["dpm_min"] = 90.0
        return {"m": "scale_by_hs", "via": via, "expr": rng.choice(["0.5*hs+0.1", "2*hs", "hs**0.5"]), "kw": kw}
    if g == "smooth":
        return {"m": "smooth", "via": via, "kw": {"freq_window": rng.choice([1, 3, 5]), "dir_window": rng.choice([1, 3, 5])}}
    if g == "rotate":
        return {"m": "rotate", "via": via, "kw": {"angle": rng.choice([10.0, -25.0, 90.0, 360.0 / nd])}}
    if g == "interp":
        op = {"m": "interp", "via": via, "kw": {"maintain_m0": rng.random() < 0.7}, "freq": None, "dir": None}
        if rng.random() < 0.7:
            op["freq"] = [float(x) for x in np.round(np.linspace(freqs[0] * 0.9, freqs[-1] * 1.05, nf + 2), 5)]
        if rng.random() < 0.6 or op["freq"] is None:
            op["dir"] = [float(x) for x in np.arange(0, 360, 360.0 / (nd + 1))]
        return op
    if g == "ptm123":
        m = rng.choice(["ptm1", "ptm2", "ptm3", "ptm3"])
        kw = {"smooth": rng.random() < 0.35, "ihmax": rng.choice([100, 100, 50, 200])}
        if kw["smooth"]:
            kw["freq_window"] = rng.choice([3, 5])
            kw["dir_window"] = rng.choice([3, 5])
        n = rng.choice([1, 2, 3, 5])
        if m == "ptm3":
            kw["parts"] = n
        else:
            kw["swells"] = n if rng.random() < 0.85 else None     # None: as many swells as there are

            if rng.random() < 0.3:
                kw["agefac"] = 1.5
        return {"m": m, "via": via, "kw": kw, "scalar_winds": m != "ptm3" and rng.random() < 0.1}
    if g == "ptm45":
        if rng.random() < 0.5:
            return {"m": "ptm4", "via": via, "kw": {"agefac": rng.choice([1.7, 1.2])}, "scalar_winds": rng.random() < 0.1}
        fcut = fmid if rng.random() < 0.6 else float(freqs[nf // 2])
        return {"m": "ptm5", "via": via, "kw": {"fcut": fcut, "interpolate": rng.random() < 0.6}}
    if g == "recon":
        # partition -> statistics of each partition -> parametric spectra rebuilt from them, all on the lazy dataset
        return {"m": "reconstruct", "via": "ds", "parts": rng.choice([2, 3]), "method": rng.choice(["ptm1", "ptm3", "ptm3"]),
                "kw": {"method_combine": rng.choice(["max", "max", "sum"])}}
    if g == "bbox":
        boxes = [{"fmin": float(freqs[0]), "fmax": fmid, "dmin": 0.0, "dmax": 180.0}]
        if rng.random() < 0.5:
            boxes.append({"fmin": fmid, "fmax": float(freqs[-1]), "dmin": 0.0, "dmax": 180.0})
        return {"m": "bbox", "via": via, "bboxes": boxes}
    if g == "hp01":
        kw = {"swells": rng.choice([1, 2, 3]), "smooth": rng.random() < 0.3, "wstype": rng.choice([0, 0, 1, 2])}
        if rng.random() < 0.4:
            kw.update(rng.choice([{"combine_extra_swells": False}, {"hs_min": 1.0}, {"angle_max": 60, "k": 1.0}, {"swells": None}, {"hs_min": 0.0, "k": 0.1}]))
        return {"m": "hp01", "via": via, "winds": rng.random() < 0.7, "kw": kw}
    if g == "fit":
        m = rng.choice(["fit_jonswap", "fit_gaussian"])
        kw = {"spectra": rng.random() < 0.6, "params": True}
        return {"m": m, "via": via, "kw": kw}
    raise AssertionError(g)


def op_label(op):
    kws = ",".join(f"{k}={v}" for k, v in sorted(op.get("kw", {}).items()))
    extra = ""
    if op["m"] == "stats":
        extra = "[" + ",".join(op["stats"]) + "]"
    if op["m"] == "reconstruct":
        extra = f"[{op['method']},{op['parts']}]"
    return f"{op['m']}{extra}({kws}){'[scalar-winds]' if op.get('scalar_winds') else ''}"
