"""Seeds, decision tape and event log: one integer decides everything.

A run is a pure function of (plan, tape, code, PYTHONHASHSEED=0).  Every choice made while a
plan executes goes through Sim.choose(n, why): it reads the next entry of the recorded tape
when replaying, otherwise draws from the run PRNG, and always appends (why, n, value) to the
tape being recorded.  Logging never draws from the PRNG and never reads a clock.
"""
import hashlib
import json
import random


def derive_seed(seed, engine, index):
    h = hashlib.blake2b(f"{seed}/{engine}/{index}".encode(), digest_size=8).digest()
    return int.from_bytes(h, "big")


def digest(obj):
    if not isinstance(obj, (bytes, bytearray)):
        obj = json.dumps(obj, sort_keys=True, default=str).encode()
    return hashlib.blake2b(obj, digest_size=10).hexdigest()


class TapeDivergence(Exception):
    """Replay asked for a decision the recorded tape does not contain at this point."""


class Sim:
    """Decision source + event log of one run."""

    def __init__(self, run_seed, tape=None, strict=False):
        self.rng = random.Random(run_seed)
        self.tape_in = tape
        self.strict = strict
        self.pos = 0
        self.tape = []
        self.log = []
        self.stats = {}
        self.diverged = 0

    # -- decisions ---------------------------------------------------------------------
    def choose(self, n, why):
        """Pick one of n alternatives (0 is always the 'nothing unusual' alternative)."""
        if n <= 1:
            return 0
        if self.tape_in is not None:
            if self.pos < len(self.tape_in):
                why0, n0, v = self.tape_in[self.pos]
                if why0 != why or n0 != n:
                    if self.strict:
                        raise TapeDivergence(
                            f"tape[{self.pos}] is ({why0},{n0}) but the run asks ({why},{n})"
                        )
                    self.diverged += 1
                    v = min(v, n - 1)
            else:
                if self.strict and self.tape_in:
                    # a strict replay may run past the end only with 'stay' decisions
                    pass
                v = 0
            self.pos += 1
        else:
            v = self.rng.randrange(n)
        self.tape.append([why, n, v])
        return v

    def flip(self, p, why):
        """Biased coin through choose(): resolution 1/1000."""
        if p <= 0:
            return False
        if self.tape_in is not None:
            return bool(self.choose(2, why))
        v = 1 if self.rng.random() < p else 0
        self.tape.append([why, 2, v])
        return bool(v)

    # -- logging -----------------------------------------------------------------------
    def event(self, *items):
        self.log.append(items)

    def count(self, key, n=1):
        self.stats[key] = self.stats.get(key, 0) + n

    def maxstat(self, key, v):
        if v > self.stats.get(key, 0):
            self.stats[key] = v

    def log_digest(self):
        return digest([list(map(str, e)) for e in self.log])
