#!/bin/bash
# Collect a sub-agent's seeded change from its scratch worktree, confirm it, remove the worktree.
# usage: collect_seed.sh <id>   (reads /tmp/wt-<id>/_seeded/{patch.diff,demo.py,meta.json})
id=$1
W=/tmp/wt-$id
mkdir -p /verif/seeded/$id
cp $W/_seeded/patch.diff $W/_seeded/demo.py $W/_seeded/meta.json /verif/seeded/$id/ || exit 2
git -C /repo worktree remove --force $W
/verif/tools/seeded_verify.sh $id
