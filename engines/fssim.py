"""C11 — writing a dataset and reading it back returns the same spectra (store semantics).

The simulated system is writer -> simulated file system -> reader.  Reference model: a map
path -> last dataset whose write was acknowledged (the writer returned without raising).
Check: a read of a path returns the dataset of the last acknowledged write to that path, to the
numeric resolution of the format, each spectrum at the position it was written from - whatever
was written to that or sibling paths before, whatever knobs (ntime chunking, gzip, buffer size)
were used and whatever injected raw-layer I/O faults hit *other* writes.
"""
import copy
import json
import os

import numpy as np

from simkit import data as D
from simkit.core import Sim, digest

NAME = "fssim"
PROPERTY = "C11"
SCHEDULE_DEPENDENT = False

EXT = {"swan": "spec", "swan_gz": "spec.gz", "octopus": "oct", "octopus_gz": "oct.gz", "json": "json",
       "ww3": "ww3.nc", "netcdf": "nc", "funwave": "txt"}
WHOLE_DEG_ND = [4, 5, 6, 8, 9, 10, 12, 15, 18, 24]


# =======================================================================================
DST_EDGES = {      # wall-clock hours that do not exist / exist twice in these zones (file times are UTC; they must not care)
    "Pacific/Auckland": ["2021-09-26T01:30:00", "2021-04-04T01:30:00"],
    "America/Los_Angeles": ["2021-03-14T01:30:00", "2021-11-07T00:30:00"],
    "Europe/London": ["2021-03-28T00:30:00", "2021-10-31T00:30:00"],
}


def gen_recipe(rng, fmt, tier="quick", tz=None):
    base = fmt.split("_")[0]
    nf = rng.randint(3, 9)
    nd = rng.choice([4, 5, 6, 8, 9, 12])
    big = rng.random() < (0.3 if tier == "thorough" else 0.08)
    huge = big and rng.random() < 0.4        # files of 100 kB and more: beyond every buffer and block size in the stack
    if big:
        nf = rng.randint(8, 20)
        nd = rng.choice([12, 18, 24, 36])
    if huge:
        nf = rng.randint(20, 32)
        nd = 36
    r = {
        "nf": nf, "nd": nd,
        "freq": {"kind": rng.choice(["log", "log", "lin"]), "f0": rng.choice([0.04, 0.05, 0.0625]), "r": rng.choice([1.1, 1.2, 1.3]), "df": rng.choice([0.02, 0.03])},
        "dir": {"dir0": rng.choice([0.0, 0.0, 5.0, 10.0]), "order": rng.choice(["asc", "asc", "desc", "rot", "shuf"]), "shift": rng.randint(1, 3), "seed": rng.randrange(100)},
        "dtype": rng.choice(["float64", "float64", "float32"]),
        "data": {"kind": rng.choice(["peaked", "random", "decades", "int_bumps", "int_bumps", "huge", "tiny", "single_bin", "gapped"]), "seed": rng.randrange(10**6), "zero_at": -1, "nan_at": -1},
        "spec_last": True, "round_freq": 5,
        "t0": rng.choice(["2020-01-01T00:00:00", "1999-12-31T23:00:00", "2021-06-15T12:30:00", "1969-12-31T22:00:00", "2040-02-28T23:00:00", "1950-06-30T23:59:00"]),
        "time_irregular": rng.random() < 0.2,
        "with_winds": rng.random() < 0.3,
        "dt_s": rng.choice([3600, 1800, 10800, 60, 7, 86400]),
        "lon0": rng.choice([150.0, 0.0, 170.5, 359.0 - 6, -20.0]), "lat0": rng.choice([-30.0, 0.0, 45.25, -75.0]),
        "dlon": rng.choice([0.25, 0.5, 1.0]), "dlat": rng.choice([0.25, 0.5, 1.0]),
    }
    if rng.random() < 0.25:
        r["origin_site"] = True
    if rng.random() < 0.25:
        r["global_attrs"] = rng.choice(["cf", "acdd", "model"])
    if rng.random() < 0.08 and r["dir"]["dir0"] == 0.0 and base != "funwave":
        r["dir"]["north360"] = True
    if rng.random() < 0.25:
        r["lat_desc"] = True
    if rng.random() < 0.15:
        r["lon_desc"] = True
    if rng.random() < 0.1:
        r["dir_dtype"] = rng.choice(["int64", "float32"])
    if rng.random() < 0.08 and base in ("json", "netcdf", "ww3"):
        r["freq_dtype"] = "float32"
    if rng.random() < 0.1 and base in ("json", "netcdf", "swan"):
        r["site_labels"] = "str"
    if rng.random() < 0.3:
        r["std_attrs"] = True
    if rng.random() < 0.2:
        r["dir_first"] = True
        if rng.random() < 0.5:
            r["nd"] = r["nf"] if base not in ("octopus", "funwave") else r["nd"]
    nt = rng.choice([1, 1, 2, 3, 4, 5]) if not big else rng.choice([3, 6, 9])
    if huge:
        nt = rng.choice([8, 10, 11, 13])
    if base == "swan":
        if rng.random() < 0.45:
            nlat, nlon = rng.choice([(1, 1), (2, 3), (3, 2), (1, 3), (2, 1), (2, 2), (3, 4)])
            r["dims"] = [["time", nt], ["lat", nlat], ["lon", nlon]]
            if rng.random() < 0.3:
                r["dims"] = [["lat", nlat], ["lon", nlon], ["time", nt]]
        else:
            r["dims"] = [["time", nt], ["site", rng.choice([1, 2, 3, 4]) if not huge else rng.choice([4, 6])]]
            if rng.random() < 0.25:
                r["dims"] = [["site", r["dims"][1][1]], ["time", nt]]
        if rng.random() < 0.12:
            r["dims"] = [d for d in r["dims"] if d[0] != "time"]      # a dataset without a time dimension
    elif base == "octopus":
        r["dims"] = [["time", rng.choice([1, 2, 3, 4])], ["site", 1]]
        r["nd"] = rng.choice(WHOLE_DEG_ND)
        r["dir"]["dir0"] = rng.choice([0.0, 0.0, 5.0, 1.0])
        r["dt_s"] = rng.choice([3600, 1800, 10800, 60, 86400])
        r["freq"] = {"kind": "log", "f0": rng.choice([0.04, 0.05]), "r": rng.choice([1.2, 1.3, 1.4])}
        r["nf"] = rng.randint(6, 10)
        while D.make_freq(r["nf"], r["freq"]).max() < 0.13:      # frequency range spans fcut=0.125
            r["nf"] += 1
        r["round_freq"] = 6
        if rng.random() < 0.25:
            r["no_winds"] = True       # no wind / depth variables: the writer fills its placeholder
    elif base == "json":
        r["dims"] = rng.choice([[["time", nt], ["site", 2]], [["time", nt]], [], [["time", nt], ["lat", 2], ["lon", 3]], [["site", 3]]])
        if rng.random() < 0.2:
            r["nd"] = 0
    elif base == "ww3":
        r["dims"] = [["time", nt], ["site", rng.choice([1, 2, 3])]]
    elif base == "netcdf":
        r["dims"] = rng.choice([[["time", nt], ["site", 2]], [["time", nt]], [["time", nt], ["lat", 2], ["lon", 3]], [["site", 3], ["time", nt]], [["site", 2]], []])
    elif base == "funwave":
        r["dims"] = []
        r["nd"] = rng.choice([4, 6, 8, 9, 12, 24, 36, 0])      # 0: a frequency spectrum E(f)
        r["dir"]["order"] = rng.choice(["asc", "asc", "rot", "shuf"])
        r["dtype"] = "float64"
        # keep amplitudes sqrt(8 E df dd)/2 below 100 m, the widest value the format's fixed %12.8f columns can hold
        r["nf"] = min(r["nf"], 9)
        r["freq"]["r"] = min(r["freq"].get("r", 1.1), 1.2)
        if r["data"]["kind"] in ("huge", "single_bin"):
            # amplitudes >= 100 m do not fit the format's fixed %12.8f columns (no separator is written):
            # outside what the format can express, and far outside physical wave spectra
            r["data"]["kind"] = "decades"
    has_site = any(k == "site" for k, _ in r["dims"])
    if base in ("swan", "octopus") and has_site:
        r["lonlat"] = rng.choice(["coords", "coords", "vars", "absent_args", "absent"])
        if base == "swan" and rng.random() < 0.3:
            r["read_default"] = True      # read without as_site: sites that happen to form a grid come back gridded
        if base == "swan" and rng.random() < 0.15:
            # sites on a regular grid
            r["site_grid"] = True
    elif base in ("json", "netcdf", "ww3") and has_site:
        r["lonlat"] = rng.choice(["coords", "vars"])
    npos = int(np.prod([n for _, n in r["dims"]] or [1]))
    if base in ("swan", "json", "netcdf", "ww3", "octopus") and npos > 0 and rng.random() < 0.3:
        r["data"]["zero_at"] = rng.randrange(npos)
    if npos > 0 and rng.random() < 0.25 and base != "funwave":
        r["data"]["calm_at"] = rng.randrange(npos)
        r["data"]["calm_scale"] = rng.choice([1e-5, 1e-7, 1e-9, 1e-15])
    if tz in DST_EDGES and rng.random() < 0.6:
        r["t0"] = rng.choice(DST_EDGES[tz])
        r["dt_s"] = rng.choice([1800, 3600, 600])
        r["time_irregular"] = False
    if base in ("json", "swan") and rng.random() < 0.08:     # (NETCDF3 has no 64-bit integers to hold such times)
        # whole-second time stamps outside the range of nanosecond datetimes
        r["time_unit"] = "s"
        r["t0"] = rng.choice(["2299-12-31T18:00:00", "1600-05-06T07:08:09", "2500-01-01T00:00:00"])
    if base in ("swan", "json", "netcdf", "ww3") and npos > 1 and rng.random() < 0.3:
        r["data"]["nan_at"] = rng.randrange(npos)
        if r["data"]["nan_at"] == r["data"]["zero_at"]:
            r["data"]["zero_at"] = -1
    return r


def gen_plan(rng, tier="quick"):
    steps = []
    tz = rng.choice([None, None, None, "Pacific/Auckland", "America/Los_Angeles", "Europe/London", "Asia/Kolkata"])
    nfiles = rng.randint(1, 3)
    files = {}
    for _ in range(rng.randint(2, 7 if tier == "quick" else 12)):
        kind = rng.choices(["write", "read", "sibling"], [5, 4, 0.6])[0]
        if kind == "write" or not files:
            fmt = rng.choice(["swan", "swan", "swan_gz", "octopus", "octopus_gz", "json", "ww3", "netcdf", "funwave"])
            slot = rng.randrange(nfiles)
            name = rng.choice([f"f{slot}.{EXT[fmt]}", f"f{slot}.{EXT[fmt]}", f"run.v1.2.f{slot}.{EXT[fmt]}", f"a.gz.f{slot}.{EXT[fmt]}"])
            kw = {}
            recipe = gen_recipe(rng, fmt, tier, tz)
            nt = dict((k, n) for k, n in recipe["dims"]).get("time", 1)
            if fmt.startswith(("swan", "octopus")) and rng.random() < 0.45:
                kw["ntime"] = rng.choice([1, 2, 3, nt, nt + 1])
            if fmt.startswith(("swan", "octopus")) and nt >= 8 and rng.random() < 0.7:
                kw["ntime"] = rng.choice([3, 4, 5, 6, 7])          # large output written in several loads
            st = {"op": "write", "file": name, "fmt": fmt, "recipe": recipe, "kw": kw}
            if rng.random() < 0.22:
                st["fault"] = {"kind": rng.choice(["eio", "enospc", "torn", "close_err", "short", "short"]), "k": rng.choice([1, 1, 2, 3, 5, 8, 13, 21, 40]), "every": rng.choice([1, 2, 3])}
            steps.append(st)
            files[name] = fmt
            if rng.random() < 0.12 and not st.get("fault") and fmt != "funwave":
                # the caller goes on working with the dataset it has just exported: edits it in place and exports it again
                # (to the same or to another path) - the second file holds the dataset as it is *then*
                name2 = name if rng.random() < 0.4 else f"again.{name}"
                st2 = {"op": "write", "file": name2, "fmt": fmt, "recipe": json.loads(json.dumps(recipe)), "kw": dict(kw), "reuse": len(steps) - 1,
                       "edit": {"k": rng.choice(["scale_first", "scale_first", "zero_first", "scale_all", "lon_last"]), "f": rng.choice([0.5, 3.0])}}
                steps.append(st2)
                files[name2] = fmt
                name = name2
            if rng.random() < 0.6:
                steps.append({"op": "read", "file": name, "short_reads": rng.random() < 0.3, "engine": rng.random() < 0.2, "how": rng.choice(["path", "path", "path", "fileobj", "pathlib"])})
        elif kind == "read":
            steps.append({"op": "read", "file": rng.choice(sorted(files)), "short_reads": rng.random() < 0.3, "engine": rng.random() < 0.2, "how": rng.choice(["path", "path", "path", "fileobj", "pathlib"])})
        else:
            sw = [f for f, fm in files.items() if fm.startswith("swan")]
            if sw:
                steps.append({"op": "sibling", "file": rng.choice(sw), "kind": rng.choice(["garbage", "plausible"])})
    if files and steps[-1]["op"] != "read":
        steps.append({"op": "read", "file": rng.choice(sorted(files)), "short_reads": False})
    return {"engine": NAME, "steps": steps, "bufsize": rng.choice([32, 64, 256, 1024, 8192]),
            "tz": tz}


def shape(plan):
    parts = []
    for st in plan["steps"]:
        if st["op"] == "write":
            parts.append(f"write:{st['file']}:{D.describe(st['recipe'])}:{sorted(st['kw'].items())}:{st.get('fault')}")
        else:
            parts.append(f"{st['op']}:{st['file']}:{st.get('kind', st.get('short_reads'))}")
    return " ; ".join(parts)


# =======================================================================================
def expected_dataset(recipe, fmt):
    """(dataset to write, extra writer kwargs, (lon, lat) expected per site or None)."""
    r = dict(recipe)
    ds = D.make_dataset(r, winds=(fmt.startswith("octopus") and not r.get("no_winds")) or bool(r.get("with_winds")))
    nd = r.get("round_freq")
    if nd is not None:
        ds = ds.assign_coords(freq=np.round(ds["freq"].values, nd).astype(ds["freq"].dtype))
    kw, lonlat = {}, None
    if "site" in ds.dims and "lon" in ds.coords:
        ns = ds.sizes["site"]
        if r.get("site_grid") and ns > 1:
            nlon = 2 if ns % 2 == 0 else ns
            lon = float(r.get("lon0", 150.0)) + 0.5 * (np.arange(ns) % nlon)
            lat = float(r.get("lat0", -30.0)) + 0.5 * (np.arange(ns) // nlon)
            if r.get("lat_desc"):
                lat = lat.max() + lat.min() - lat      # rows listed north to south
            if r.get("lon_desc"):
                lon = lon.max() + lon.min() - lon
            ds = ds.assign_coords(lon=("site", lon), lat=("site", lat))
        lonlat = (np.asarray(ds["lon"].values, float), np.asarray(ds["lat"].values, float))
        mode = r.get("lonlat", "coords")
        if mode == "vars":
            ds = ds.reset_coords(["lon", "lat"])
        elif mode in ("absent", "absent_args"):
            ds = ds.drop_vars(["lon", "lat"])
            if mode == "absent_args":
                kw = {"lons": lonlat[0].copy(), "lats": lonlat[1].copy()}
            else:
                lonlat = (np.zeros(ns), np.zeros(ns))
    return ds, kw, lonlat


def edit_in_place(ds, lonlat, e):
    """An in-place edit of a dataset the caller keeps using (no variable is replaced: the arrays behind it change).
    Returns the positions the next export is expected to carry."""
    v = ds["efth"]
    lead = [d for d in v.dims if d not in ("freq", "dir")]
    first = {lead[0]: 0} if lead else {}
    k = e["k"]
    if k == "scale_first":
        v[first] = v[first] * np.asarray(e["f"], dtype=v.dtype)
    elif k == "zero_first":
        v[first] = 0.0
    elif k == "scale_all":
        v.values[...] = v.values * np.asarray(e["f"], dtype=v.dtype)
    elif k == "lon_last" and "lon" in ds.variables and ds["lon"].dims == ("site",):
        ds["lon"].values[-1] = np.round(ds["lon"].values[-1] + 0.125, 3)
        if lonlat is not None:
            lonlat = (np.asarray(ds["lon"].values, float).copy(), lonlat[1])
    else:
        v.values[...] = v.values * np.asarray(2.0, dtype=v.dtype)
    return lonlat


def do_write(ds, fmt, path, kw):
    base = fmt.split("_")[0]
    if base == "swan":
        return ds.spec.to_swan(path, **kw)
    if base == "octopus":
        return ds.spec.to_octopus(path, **kw)
    if base == "json":
        return ds.spec.to_json(path)
    if base == "ww3":
        return ds.spec.to_ww3(path)
    if base == "netcdf":
        return ds.spec.to_netcdf(path, ncformat="NETCDF3_64BIT", compress=False, packed=False)
    if base == "funwave":
        return ds.spec.to_funwave(path, clip=False)
    raise ValueError(fmt)


def do_read(fmt, path, recipe, engine=False, how="path"):
    import wavespectra as ws

    base = fmt.split("_")[0]
    if not engine and how == "fileobj" and base in ("octopus", "json", "funwave"):
        # the documented "filename or file-like object" door: the caller opens the file, the reader gets the handle
        import gzip

        with (gzip.open(path, "rt") if str(path).endswith(".gz") else open(path, "rt")) as fobj:
            return {"octopus": ws.read_octopus, "json": ws.read_json, "funwave": ws.read_funwave}[base](fobj)
    if not engine and how == "pathlib" and base == "octopus":
        import pathlib

        return ws.read_octopus(pathlib.Path(path))
    if engine:
        # the matching reader reached through xarray: xr.open_dataset(path, engine=<format>)
        import xarray as xr

        kw = {}
        if base == "swan" and not recipe.get("read_default"):
            kw["as_site"] = not any(k == "lat" for k, _ in recipe["dims"])
        with xr.open_dataset(path, engine=base, **kw) as d:
            return d.load()
    if base == "swan":
        grid = any(k == "lat" for k, _ in recipe["dims"])
        if recipe.get("read_default"):
            return ws.read_swan(path)
        return ws.read_swan(path, as_site=not grid)
    if base == "octopus":
        return ws.read_octopus(path)
    if base == "json":
        return ws.read_json(path)
    if base == "ww3":
        with ws.read_ww3(path) as d:
            return d.load()
    if base == "netcdf":
        with ws.read_netcdf(path) as d:
            return d.load()
    if base == "funwave":
        return ws.read_funwave(path)
    raise ValueError(fmt)


def out_of_scope(st):
    """Reason why this write is outside what the format / writer documents it can express, else None.
    (Plan simplification can shrink a recipe out of a format's scope; such a refusal is not a verdict.)"""
    r, base = st["recipe"], st["fmt"].split("_")[0]
    if base == "octopus":
        f = D.make_freq(r["nf"], r.get("freq", {}))
        fcut = st["kw"].get("fcut", 0.125)
        if not (f.min() <= fcut <= f.max()):
            return "fcut outside the frequency range (documented precondition of to_octopus)"
    if base == "netcdf" and any(k == "time" for k, _ in r["dims"]):
        # the only netCDF flavour installed here is NETCDF3 (scipy): whole seconds since 1970 are stored as int32
        nt = dict((k, n) for k, n in r["dims"])["time"]
        t0 = np.datetime64(r.get("t0", "2020-01-01T00:00:00"), "s").astype("int64")
        t1 = t0 + int(r.get("dt_s", 3600)) * (nt + 1) * (3 if r.get("time_irregular") else 1)
        if r.get("time_unit", "ns") != "ns" or min(t0, t1) < -2**31 or max(t0, t1) >= 2**31:
            return "NETCDF3 cannot hold 64-bit time offsets (seconds since 1970 beyond int32)"
    return None


def features(st, history):
    """Predicates of a write step that can matter for the round trip (the 'cause' of a signature)."""
    r = st["recipe"]
    dims = dict((k, n) for k, n in r["dims"])
    f = []
    nt = dims.get("time", 0)
    if st["kw"].get("ntime") and st["kw"]["ntime"] < max(nt, 1):
        f.append("ntime<ntimes")
    if "lat" in dims:
        f.append("grid" if dims["lat"] * dims["lon"] > 1 else "grid1x1")
    if dims.get("site", 1) > 1:
        f.append("multi-site")
    if nt > 1:
        f.append("multi-time")
    if r["dir"].get("order", "asc") != "asc" and r.get("nd", 0) > 0:
        f.append("unsorted-dirs")
    if r["data"].get("zero_at", -1) >= 0:
        f.append("zero-spectrum")
    if r["data"].get("nan_at", -1) >= 0:
        f.append("nan-spectrum")
    if r["dims"] and r["dims"][0][0] != "time" and "time" in dims:
        f.append("time-not-first")
    if r.get("dir_first") and r.get("nd", 0) > 0:
        f.append("dir-before-freq")
    if r.get("lonlat", "coords") != "coords":
        f.append("lonlat-" + r["lonlat"])
    if r.get("read_default"):
        f.append("read-default")
    if r.get("site_grid"):
        f.append("sites-on-grid")
    if r.get("lat_desc") and ("lat" in dims or r.get("site_grid")):
        f.append("lat-descending")
    if r.get("lon_desc") and ("lon" in dims or r.get("site_grid")):
        f.append("lon-descending")
    if r["dir"].get("north360"):
        f.append("north-as-360")
    if r.get("time_irregular") and nt > 2:
        f.append("uneven-time-steps")
    if "time" not in dims and st["fmt"].split("_")[0] in ("swan", "netcdf"):
        f.append("no-time-dim")
    if r.get("origin_site") and "site" in dims:
        f.append("site-at-origin" if (r.get("lon0") == 0.0 and r.get("lat0") == 0.0) else "site-at-lon0-lat0")
    if r.get("global_attrs"):
        f.append("global-attrs-" + r["global_attrs"])
    if r.get("with_winds") and not st["fmt"].startswith("octopus"):
        f.append("with-winds")
    if r["data"]["kind"] in ("huge", "tiny", "single_bin"):
        f.append(r["data"]["kind"] + "-values")
    if r["data"].get("calm_at", -1) >= 0:
        f.append("calm-spectrum")
    if r.get("time_unit", "ns") != "ns":
        f.append("times-beyond-ns-range")
    if st["fmt"].startswith("funwave") and r.get("nd", 0) > 1:
        from simkit.data import make_dir

        d = make_dir(r["nd"], r["dir"])
        c = (270 - d) % 360
        c[c > 180] -= 360
        c = np.sort(c)
        if len(c) > 1 and c[1] == -90:
            f.append("dir0-second")
    f.extend(history)
    return "+".join(f) or "plain"


# ---------------------------------------------------------------------------------------
def _positions(ds, recipe):
    """Canonical (time, pos, freq, dir) view of a dataset plus coordinate vectors."""
    e = ds["efth"]
    dims = [k for k, _ in recipe["dims"]]
    grid = "lat" in dims
    spec_dims = ["freq"] + (["dir"] if "dir" in e.dims else [])
    lead = []
    if "time" in e.dims:
        lead.append("time")
    if grid:
        pos_dims = ["lat", "lon"]
    elif "site" in e.dims:
        pos_dims = ["site"]
    else:
        pos_dims = []
    return e.transpose(*(lead + [d for d in pos_dims if d in e.dims] + spec_dims)), lead, [d for d in pos_dims if d in e.dims], spec_dims


def _far(a, b, tol):
    """True unless every |a - b| <= tol; a NaN that was not written counts as far."""
    if a.shape != b.shape:
        return True
    both_nan = np.isnan(a) & np.isnan(b)
    with np.errstate(invalid="ignore"):
        ok = (np.abs(a - b) <= tol) | both_nan
    return not bool(ok.all())


def compare_roundtrip(fmt, recipe, exp, got, _depth=0, lonlat=None):
    """None if `got` equals `exp` to the resolution of the format, else (class, detail)."""
    import xarray as xr

    base = fmt.split("_")[0]
    if "efth" not in got:
        return "structure", f"no efth variable in what was read: {list(got.data_vars)}"
    if lonlat is not None and "site" in exp.dims and "site" not in got.dims and "lat" in got.dims and "lon" in got.dims:
        # a station file whose sites form a grid may legitimately come back gridded: each spectrum must then
        # sit at the cell of the position it was written from
        pts = list(zip(np.round(lonlat[0], 6), np.round(lonlat[1], 6)))
        if len(set(pts)) != len(pts):
            return None  # positions not unique: the gridded form cannot be matched back to sites
        sel = got.sel(lon=xr.DataArray(lonlat[0], dims="site"), lat=xr.DataArray(lonlat[1], dims="site"), method="nearest")
        got = sel.assign_coords(site=exp["site"].values) if "site" in exp.coords else sel
        got = got.reset_coords([c for c in ("lon", "lat") if c in got.coords])
    ee, lead, pos, sdims = _positions(exp, recipe)
    ge = got["efth"]
    # ---- dims present ----------------------------------------------------------------------
    want_dims = set(ee.dims)
    have_dims = set(d for d in ge.dims if ge.sizes[d] > 1 or d in want_dims)
    if base in ("swan", "octopus", "ww3") and "time" not in want_dims:
        have_dims.discard("time")
    if base in ("swan", "octopus") and "site" not in want_dims:
        have_dims.discard("site")
    missing = want_dims - set(ge.dims)
    if missing:
        return "structure", f"dims {sorted(missing)} missing in what was read (read dims {ge.dims}, written {ee.dims})"
    extra = [d for d in ge.dims if d not in want_dims and ge.sizes[d] != 1]
    if extra:
        return "structure", f"unexpected non-singleton dims {extra} in what was read"
    ge = ge.squeeze([d for d in ge.dims if d not in want_dims], drop=True)
    for d in ee.dims:
        if ge.sizes[d] != ee.sizes[d]:
            first = ("count-" + d, f"{ge.sizes[d]} values along {d} read back, {ee.sizes[d]} written")
            if d == "time" and 0 < ge.sizes[d] < ee.sizes[d] and _depth == 0:
                # fewer times than written: what did come back must still be right (so that a different
                # defect is not hidden behind a known 'missing times' finding)
                k = ge.sizes[d]
                sub = compare_roundtrip(fmt, recipe, exp.isel(time=slice(0, k)), got, _depth=1, lonlat=lonlat)
                if sub:
                    return sub[0] + "+count-time", f"{first[1]}; and among the times that did come back: {sub[1]}"
            return first
    ge = ge.transpose(*ee.dims)
    # gridded data: positions are coordinates, not storage order - a reader may return the axes sorted
    ctol0 = {"swan": 5.1e-7, "octopus": 5.1e-7}.get(base, 0.0)
    if "lat" in ee.dims and "lon" in ee.dims:
        for c in ("lat", "lon"):
            gv, ev = np.asarray(got[c].values, float), np.asarray(exp[c].values, float)
            if gv.shape != ev.shape or _far(np.sort(gv), np.sort(ev), ctol0 + 1e-12):
                return c, f"{c} differ: read {gv} written {ev}"
            idx = [int(np.abs(gv - v).argmin()) for v in ev]
            if sorted(idx) != list(range(len(ev))):
                return c, f"{c} values not unique after the round trip: read {gv} written {ev}"
            ge = ge.isel({c: idx})
            got = got.isel({c: idx})
    # ---- coordinates ------------------------------------------------------------------------
    ftol = {"swan": 5.1e-6, "octopus": 5.1e-8, "funwave": 5.1e-6}.get(base, 0.0)
    fg, fe = np.asarray(got["freq"].values, float), np.asarray(exp["freq"].values, float)
    if fg.shape != fe.shape or _far(fg, fe, ftol + 1e-15):
        return "freq", f"frequencies differ: read {fg[:4]} written {fe[:4]}"
    order = None
    if "dir" in sdims:
        dtol = {"swan": 5.1e-5, "octopus": 0.5, "funwave": 5.1e-4}.get(base, 0.0)
        if base == "ww3":
            # (dir + 180) % 360 on write and again on read, in the coordinate's own precision
            dtol = 1e-4 if recipe.get("dir_dtype") == "float32" else 1e-9
        dg, de = np.asarray(got["dir"].values, float) % 360, np.asarray(exp["dir"].values, float) % 360
        # directions are labels: match each written direction to the read one (circular distance)
        dist = np.abs(((de[:, None] - dg[None, :]) + 180) % 360 - 180)
        order = dist.argmin(axis=1)
        if sorted(order.tolist()) != list(range(len(dg))) or not (dist[np.arange(len(de)), order].max() <= dtol + 1e-12):
            return "dir", f"directions differ: read {np.asarray(got['dir'].values)[:6]} written {np.asarray(exp['dir'].values)[:6]}"
    if "time" in lead:
        unit = "us" if recipe.get("time_unit", "ns") != "ns" else "ns"
        tg = np.asarray(got["time"].values).astype(f"datetime64[{unit}]").astype("int64")
        te = np.asarray(exp["time"].values).astype(f"datetime64[{unit}]").astype("int64")
        ttol = {"ww3": 10**6, "netcdf": 10**6}.get(base, 0)  # double days/seconds -> < 1 ms
        if unit == "us":
            ttol = ttol // 1000
        if np.abs(tg - te).max() > ttol:
            return "time", f"times differ: read {got['time'].values[:3]} written {exp['time'].values[:3]}"
    ctol = {"swan": 5.1e-7, "octopus": 5.1e-7}.get(base, 0.0)
    if pos == ["lat", "lon"]:
        for c in ("lat", "lon"):
            if _far(np.asarray(got[c].values, float), np.asarray(exp[c].values, float), ctol + 1e-12):
                return c, f"{c} differ: read {got[c].values} written {exp[c].values}"
    elif lonlat is not None and (pos == ["site"] or base == "octopus"):
        for c, b in (("lon", lonlat[0]), ("lat", lonlat[1])):
            if c not in got:
                return c, f"{c} missing in what was read"
            a = np.asarray(got[c].values, float).ravel()
            if a.shape != b.shape or _far(a, b, ctol + 1e-12):
                return c, f"{c} of sites differ: read {a} written {b}"
    # ---- energy densities, spectrum by spectrum ---------------------------------------------
    G = np.asarray(ge.values, float)
    E = np.asarray(ee.values, float)
    if order is not None:
        G = np.take(G, order, axis=-1)
    nspec = len(sdims)
    Ef = E.reshape((-1,) + E.shape[-nspec:])
    Gf = G.reshape((-1,) + G.shape[-nspec:])
    df = np.gradient(fe) if len(fe) > 1 else np.array([1.0])
    dd = abs(float(exp["dir"].values[1] - exp["dir"].values[0])) if "dir" in sdims and exp.sizes["dir"] > 1 else 1.0
    if "dir" in sdims and exp.sizes["dir"] > 1:
        ds_sorted = np.sort(np.asarray(exp["dir"].values, float))
        dd_sorted = abs(float(ds_sorted[1] - ds_sorted[0]))
    else:
        dd_sorted = 1.0
    for i in range(Ef.shape[0]):
        e, g = Ef[i], Gf[i]
        en, gn = np.isnan(e), np.isnan(g)
        can_nan = base in ("swan", "json", "netcdf", "ww3")
        if en.all():
            if can_nan and not gn.all():
                return "nan", f"spectrum {i} was written all-missing but read back with {int((~gn).sum())} finite bins (max {np.nanmax(g):g})"
            continue
        if gn.any():
            return "nan", f"spectrum {i}: {int(gn.sum())} bins read back missing, none written missing"
        if not e.any():
            if g.any():
                return "zero", f"spectrum {i} was written all-zero but read back with max {np.abs(g).max():g}"
            continue
        if base == "swan":
            # one count of spec/fac is fac = max/9998; %5.0f rounds to half a count; the division is done in the
            # dataset's own precision and fac is printed with 9 significant digits
            tol = 0.501 * e.max() / 9998.0 + e.max() * (1e-6 if recipe.get("dtype") == "float32" else 2e-8)
        elif base == "octopus":
            w = df[:, None] * dd_sorted
            tol = (5.1e-8 / w) + np.abs(e) * (4e-7 / df.min()) + 1e-12
        elif base == "funwave":
            w = (df[:, None] if e.ndim == 2 else df) * dd_sorted
            amp = np.sqrt(e * w * 8) / 2
            tol = (2 * amp * 5.1e-9 + 5.1e-9**2) / (2 * w) * 4 + np.abs(e) * 1e-9 + 1e-15
        elif base == "ww3":
            tol = np.abs(e) * (1e-6 if recipe.get("dtype") == "float32" else 1e-13)
        else:
            tol = np.abs(e) * 0.0
        bad = np.abs(g - e) > tol
        if bad.any():
            idx = tuple(int(x) for x in np.argwhere(bad)[0])
            t = tol if np.isscalar(tol) else np.broadcast_to(tol, e.shape)[idx]
            return "value", (f"spectrum {i} (of {Ef.shape[0]}, order time x position): {int(bad.sum())} of {e.size} bins differ beyond the format resolution; "
                             f"bin {idx}: read {g[idx]!r} written {e[idx]!r} tolerance {float(t):.3g}")
    return None


# =======================================================================================
def execute(arg):
    from engines.schedsim import install_seams
    from simkit import build, lanes, simfs

    plan = arg["plan"]
    sim = Sim(arg["run_seed"], tape=arg.get("tape"), strict=arg.get("strict", False))
    if arg.get("plan_retries"):
        sim.count("plan_generation_retries", arg["plan_retries"])
    install_seams(arg["run_seed"])      # includes the clock seam (simkit/clock.py)
    if plan.get("tz"):
        # the machine's time zone is configuration too: file times are UTC whatever it is
        import time as _time

        os.environ["TZ"] = plan["tz"]
        _time.tzset()
    root = os.path.join(lanes.scratch_root(), "fs")
    fs = simfs.SimFS(root, sim, bufsize=plan.get("bufsize", 8192))
    fs.install()
    viol = []
    out = {"outcome": "ok", "violations": viol, "shape": digest(shape(plan))}
    model = {}      # file -> (step index of the acknowledged write)
    hist = {}       # file -> list of history tags since creation
    import gc

    # Finalizer timing is a schedule too: a writer that raised may leave an open handle with buffered bytes
    # behind, which reaches the disk only when the garbage is collected.  The cyclic collector is switched off
    # and the simulator decides when the leftovers of a failed write are released: at once, after the next
    # step, or at the end of the run.
    gc.collect()
    gc.disable()
    held = []       # [release_at_step, exception]
    objs, snaps = {}, {}      # datasets the "caller" still holds, by write step; what an edited one looked like when exported

    def release(now):
        due = [h for h in held if h[0] <= now]
        if due:
            held[:] = [h for h in held if h[0] > now]
            del due
            gc.collect()
            sim.count("finalizers_released")

    try:
        for i, st in enumerate(plan["steps"]):
            sim.count("steps")
            release(i)
            path = fs.path(st["file"])
            if st["op"] == "write":
                tags = hist.setdefault(st["file"], [])
                existed = os.path.exists(path)
                if st.get("reuse") is not None:
                    # the very object an earlier step exported (rebuilt only when that step is gone, e.g. while minimising)
                    exp, xkw, ll = objs.get(st["reuse"]) or expected_dataset(st["recipe"], st["fmt"])
                    ll = edit_in_place(exp, ll, st["edit"])
                    snaps[i] = (exp.copy(deep=True), ll)
                    sim.count("writes_of_edited_object")
                else:
                    exp, xkw, ll = expected_dataset(st["recipe"], st["fmt"])
                objs[i] = (exp, xkw, ll)
                fs.arm(st.get("fault"))
                try:
                    do_write(exp, st["fmt"], path, dict(st["kw"], **xkw))
                    acked = True
                except Exception as exc:
                    acked = False
                    sim.event("write-raised", st["file"], type(exc).__name__, str(exc).replace(root, "<fs>")[:100])
                    when = sim.choose(3, "finalize-leftovers")
                    held.append([i if when == 0 else (i + 2 if when == 1 else 10**9), exc])
                    if when:
                        sim.count("fault.late_finalizer")
                finally:
                    fired = [k for k, _ in fs.fired]
                    fs.disarm()
                if acked:
                    h = []
                    if existed:
                        h.append("overwrite")
                    if "failed" in tags:
                        h.append("after-failed-write")
                    if "sibling" in tags:
                        h.append("stale-sibling")
                    hard = [k for k in fired if k in ("eio", "enospc", "torn_write", "close_err")]
                    if hard:
                        h.append("swallowed:" + hard[0])
                        sim.count("writes_acked_despite_fault")
                    model[st["file"]] = (i, h)
                    sim.count("writes_acked")
                    if fired and not hard:
                        sim.count("writes_acked_with_short_writes")
                    tags[:] = [t for t in tags if t == "sibling"]
                else:
                    model.pop(st["file"], None)
                    tags.append("failed")
                    sim.count("writes_raised")
                    if not fired and not st.get("fault") and out_of_scope(st):
                        sim.count("writes_refused_out_of_scope")
                    elif not fired and not st.get("fault"):
                        # nothing failed underneath: the writer itself refuses a dataset of its documented scope
                        exc = held[-1][1]
                        viol.append({"property": PROPERTY, "signature": f"C11/write/{st['fmt'].split('_')[0]}/{features(st, [])}/raises-{type(exc).__name__}", "step": i,
                                     "detail": f"step {i}: writing {D.describe(st['recipe'])} dims={st['recipe']['dims']} as {st['fmt']} (kw={st['kw']}) with no I/O fault raises {type(exc).__name__}: {exc}".replace(root, "<fs>")[:900]})
                    if fired:
                        sim.count("writes_aborted_by_fault")
                        if "close_err" in fired:
                            sim.count("write_error_surfaced_at_close")
            elif st["op"] == "sibling":
                tab = path.replace(".gz", "").rsplit(".", 1)[0] + ".tab"
                with open(tab, "w") as f:
                    if st["kind"] == "garbage":
                        f.write("this is not a SWAN table\n1 2 3\n")
                    else:
                        f.write("SWAN   1                                Swan standard file, version\n$ Data produced by SWAN version 41.31\n$ Project: stale ;  run number: 1\n"
                                "TABLE\n%       Time            Hsig          Dep     X-Windv   Y-Windv\n%       [ ]             [m]           [m]     [m/s]     [m/s]\n%\n"
                                "20200101.000000     1.5     33.3     1.0    -2.0\n")
                hist.setdefault(st["file"], []).append("sibling")
                for k in list(model):
                    if k == st["file"]:
                        model[k] = (model[k][0], model[k][1] + ["stale-sibling"])
                sim.count("siblings_written")
            elif st["op"] == "read":
                if st["file"] not in model:
                    sim.count("reads_skipped_unacked")
                    continue
                wi, h = model[st["file"]]
                w = plan["steps"][wi]
                fs.short_reads = bool(st.get("short_reads"))
                exp, _, lonlat = expected_dataset(w["recipe"], w["fmt"])
                if wi in snaps:
                    exp, lonlat = snaps[wi]
                sim.count("reads")
                base = w["fmt"].split("_")[0]
                how = st.get("how", "path") if not st.get("engine") and (base in ("octopus", "json", "funwave") and st.get("how") == "fileobj" or base == "octopus" and st.get("how") == "pathlib") else "path"
                cause = features(w, h) + ("+rewritten-after-inplace-edit" if wi in snaps else "") + ("+via-xarray-engine" if st.get("engine") else "") + ("" if how == "path" else "+" + how)
                if how != "path":
                    sim.count("reads_" + how)
                try:
                    got = do_read(w["fmt"], path, w["recipe"], engine=bool(st.get("engine")), how=how)
                except Exception as exc:
                    viol.append({"property": PROPERTY, "signature": f"C11/roundtrip/{base}/{cause}/read-raises-{type(exc).__name__}", "step": i,
                                 "detail": f"step {i}: reading {st['file']} (acknowledged {w['fmt']} write of {D.describe(w['recipe'])}, kw={w['kw']}, history={h}) raises {type(exc).__name__}: {exc}".replace(root, "<fs>")[:900]})
                    continue
                finally:
                    fs.short_reads = False
                d = compare_roundtrip(w["fmt"], w["recipe"], exp, got, lonlat=lonlat)
                if d:
                    viol.append({"property": PROPERTY, "signature": f"C11/roundtrip/{base}/{cause}/{d[0]}", "step": i,
                                 "detail": f"step {i}: read of {st['file']} after acknowledged {w['fmt']} write of {D.describe(w['recipe'])} kw={w['kw']} history={h}: {d[1]}"[:900]})
                else:
                    sim.count("roundtrips_ok")
                    sim.count("roundtrips_ok." + base)
            if any(h[0] <= i for h in held):
                release(i)
    finally:
        held.clear()
        gc.collect()
        fs.cleanup()
    out["stats"] = sim.stats
    out["tape_digest"] = digest(sim.tape)
    out["log_digest"] = sim.log_digest()
    out["nontrivial"] = sim.stats.get("reads", 0) >= 1
    if viol:
        out["outcome"] = "violation"
    if arg.get("want_tape") or viol:
        out["tape"] = sim.tape
        out["plan"] = plan
    if arg.get("want_log"):
        out["log"] = [list(map(str, e)) for e in sim.log[-400:]]
    return out


# =======================================================================================
def simplify(plan):
    out = []
    steps = plan["steps"]
    n = len(steps)
    seen = set()
    for size in (max(1, n // 2), 1):
        for start in range(0, n, size):
            keep = steps[:start] + steps[start + size:]
            if not keep or len(keep) == n:
                continue
            key = json.dumps(keep, sort_keys=True)
            if key not in seen:
                seen.add(key)
                out.append(dict(plan, steps=copy.deepcopy(keep)))
    for i, st in enumerate(steps):
        if st["op"] != "write":
            continue

        def variant(f):
            p = copy.deepcopy(plan)
            try:
                if f(p["steps"][i]) is not False and p != plan:
                    out.append(p)
            except Exception:
                pass
        r = st["recipe"]
        for j in range(len(r["dims"])):
            if r["dims"][j][1] > 1:
                variant(lambda s, j=j: (s["recipe"]["dims"][j].__setitem__(1, s["recipe"]["dims"][j][1] - 1), s["recipe"]["data"].update(zero_at=-1, nan_at=-1)))
                variant(lambda s, j=j: (s["recipe"]["dims"][j].__setitem__(1, 1), s["recipe"]["data"].update(zero_at=-1, nan_at=-1)))
        if st.get("fault"):
            variant(lambda s: s.pop("fault"))
        for k in list(st["kw"]):
            variant(lambda s, k=k: s["kw"].pop(k))
        if st["fmt"].endswith("_gz"):
            variant(lambda s: s.update(fmt=s["fmt"][:-3], file=s["file"][:-3]))
        variant(lambda s: s["recipe"]["dir"].update(order="asc"))
        variant(lambda s: s["recipe"].pop("dir_first", None))
        variant(lambda s: s["recipe"].pop("lonlat", None))
        variant(lambda s: s["recipe"].pop("read_default", None))
        variant(lambda s: s["recipe"].pop("site_grid", None))
        variant(lambda s: s["recipe"].pop("lat_desc", None))
        variant(lambda s: s["recipe"].pop("lon_desc", None))
        variant(lambda s: s["recipe"]["dir"].pop("north360", None))
        variant(lambda s: s["recipe"].update(time_irregular=False))
        variant(lambda s: s["recipe"].update(with_winds=False))
        variant(lambda s: s["recipe"].update(t0="2020-01-01T00:00:00", time_unit="ns"))
        variant(lambda s: s["recipe"]["data"].update(calm_at=-1))
        variant(lambda s: s["recipe"]["dir"].update(dir0=0.0))
        variant(lambda s: s["recipe"]["data"].update(zero_at=-1))
        variant(lambda s: s["recipe"]["data"].update(nan_at=-1))
        variant(lambda s: s["recipe"]["data"].update(kind="int_bumps"))
        variant(lambda s: s["recipe"].update(dtype="float64"))
        if r["nf"] > 3:
            variant(lambda s: s["recipe"].update(nf=max(3, s["recipe"]["nf"] // 2)) if not s["fmt"].startswith("octopus") else False)
        if r.get("nd", 0) > 4:
            variant(lambda s: s["recipe"].update(nd=4))
    if plan.get("bufsize") != 8192:
        out.append(dict(copy.deepcopy(plan), bufsize=8192))
    # renaming a file in all steps is not attempted: paths are part of the history
    return out


def sample(plan):
    return {"history": shape(plan), "bufsize": plan.get("bufsize")}


NONTRIVIAL_RULE = (
    "a run is one seeded history of <= 8 (quick) / 13 (thorough) write / overwrite / read / stale-sibling steps over <= 3 paths, formats SWAN ASCII "
    "(station and lat x lon, plain and gzip, ntime chunking), Octopus, JSON, WW3 netCDF3, wavespectra NETCDF3_64BIT, Funwave, 22% of writes hit by an "
    "injected raw-layer fault, reads optionally with short raw reads, Buffered layer size 32 B - 8 KiB; non-trivial = at least one read of a path "
    "with an acknowledged write; distinct = distinct history-shape digests"
)
COMPONENTS = {
    "real": ["wavespectra writers and readers from the working tree", "xarray / scipy netcdf3 / gzip / zipfile / json / pandas parsers", "kernel tmpfs under /dev/shm"],
    "simulated": ["raw file layer success/failure under builtins.open/io.open (SimRaw)", "Buffered layer size", "datetime.now() in read_swan (pinned)", "numpy global RNG seed (Funwave phases)"],
    "stubs": [],
}
ASSUMPTIONS = [
    "per-format tolerance is derived from the printed precision of the format (SWAN %5.0f of spec/fac, Octopus %8.7f of E df dd, Funwave %12.8f amplitudes, netCDF3 doubles)",
    "netCDF4/h5netcdf are not installed: wavespectra netCDF is exercised only as NETCDF3_64BIT, compress=False, packed=False; the int32 packing path cannot run here",
    "a write is acknowledged when the writer returns without raising; a write that raises acknowledges nothing",
]
PROBES = ["reads", "roundtrips_ok", "writes_acked", "writes_aborted_by_fault", "siblings_written", "roundtrips_ok.swan", "roundtrips_ok.octopus",
          "roundtrips_ok.json", "roundtrips_ok.ww3", "roundtrips_ok.netcdf", "roundtrips_ok.funwave", "fault.short_read", "fault.short_write"]
