"""Per-function reach from a combined coverage data file: which functions of wavespectra were never
entered / only partly executed under the engines.  usage: reach_report.py <datafile> <repo>"""
import ast
import os
import sys

import coverage

data, repo = sys.argv[1], sys.argv[2]
cov = coverage.Coverage(data_file=data)
cov.load()
never, partial, total_fn, entered_fn = [], [], 0, 0
tot_lines = hit_lines = 0
for root, _, files in os.walk(os.path.join(repo, "wavespectra")):
    for fn in sorted(files):
        if not fn.endswith(".py"):
            continue
        path = os.path.join(root, fn)
        try:
            _, executable, _, missing, _ = cov.analysis2(path)
        except Exception:
            executable, missing = None, None
        tree = ast.parse(open(path).read())
        if executable is None:
            # file never measured: every function in it is unreached
            executable = sorted({n.lineno for n in ast.walk(tree) if hasattr(n, "lineno")})
            missing = executable
        ex, ms = set(executable), set(missing)
        rel = os.path.relpath(path, repo)

        def visit(node, prefix=""):
            global total_fn, entered_fn, tot_lines, hit_lines
            for ch in ast.iter_child_nodes(node):
                if isinstance(ch, (ast.FunctionDef, ast.AsyncFunctionDef)):
                    body = {l for l in range(ch.body[0].lineno, ch.end_lineno + 1)} & ex
                    # lines of nested defs belong to them too; fine for a reach measure
                    if not body:
                        continue
                    total_fn += 1
                    miss = body & ms
                    tot_lines += len(body)
                    hit_lines += len(body) - len(miss)
                    name = f"{rel}:{prefix}{ch.name}"
                    if len(miss) == len(body):
                        never.append((name, len(body)))
                    else:
                        entered_fn += 1
                        if miss:
                            partial.append((name, len(body) - len(miss), len(body), sorted(miss)))
                    visit(ch, prefix + ch.name + ".")
                elif isinstance(ch, ast.ClassDef):
                    visit(ch, prefix + ch.name + ".")

        visit(tree)
print(f"functions entered: {entered_fn}/{total_fn}; body statements executed: {hit_lines}/{tot_lines} ({100.0 * hit_lines / max(1, tot_lines):.1f}%)")
print("\nNEVER ENTERED:")
for n, k in sorted(never):
    print(f"  {n}  ({k} stmts)")
print("\nPARTLY EXECUTED (executed/total, missing lines):")
for n, h, t, m in sorted(partial):
    print(f"  {n}  {h}/{t}  missing {m[:25]}{'...' if len(m) > 25 else ''}")
