#!/bin/bash
# Run the repository's pinned baseline suite (guard OFF) and compare with BASELINE.json stable_pass.
unset WAVESPECTRA_VERIF
REPO=${1:-/repo}
OUT=$(mktemp /dev/shm/junit.XXXXXX.xml)
cd "$REPO" && /venv/bin/python -m pytest -ra -q -p no:cacheprovider --timeout=900 --continue-on-collection-errors --junitxml="$OUT" >/dev/null 2>&1
/venv/bin/python - "$OUT" <<'P'
import json, sys, xml.etree.ElementTree as ET
base = json.load(open('/root/.vp/BASELINE.json'))
want = set(base['stable_pass'])
got = set()
for tc in ET.parse(sys.argv[1]).getroot().iter('testcase'):
    ok = not any(c.tag in ('failure', 'error', 'skipped') for c in tc)
    if ok:
        got.add(f"{tc.get('classname')}::{tc.get('name')}")
missing = sorted(want - got)
print(f"baseline: {len(want & got)}/{len(want)} stable tests pass; newly passing: {len(got - want)}")
for m in missing:
    print("  MISSING", m)
sys.exit(1 if missing else 0)
P
rc=$?
rm -f "$OUT"
exit $rc
