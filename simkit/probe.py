"""Greybox probes (never oracles): observations that only steer where extra effort is spent."""
import types


def global_state():
    """Module-level dicts/lists/sets and function defaults of every loaded wavespectra module.
    Not an oracle: a change only triggers extra observed calls (BATTERY) against the reference."""
    import sys

    out = {}
    for name, mod in sorted(sys.modules.items()):
        if not name.startswith("wavespectra") or mod is None:
            continue
        for k, v in sorted(vars(mod).items()):
            if k.startswith("__"):
                continue
            if isinstance(v, (dict, list, set)):
                try:
                    out[f"{name}.{k}"] = repr(v)[:3000]
                except Exception:
                    pass
            fns = []
            if isinstance(v, types.FunctionType) and v.__module__ == name:
                fns = [(k, v)]
            elif isinstance(v, type) and v.__module__ == name:
                fns = [(f"{k}.{n}", f) for n, f in vars(v).items() if isinstance(f, types.FunctionType)]
            for n, f in fns:
                if f.__defaults__ or f.__kwdefaults__:
                    try:
                        out[f"{name}.{n}()"] = repr((f.__defaults__, f.__kwdefaults__))[:3000]
                    except Exception:
                        pass
    return out
