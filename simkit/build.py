"""Compile the C watershed extension from the working tree and preload it.

The pre-built .so inside the repository is git-ignored and may be stale or missing, so
every check builds `specpart` from $VERIF_REPO's current sources (content-hash cached in
/verif/.build) and installs it as `wavespectra.partition.specpart` *before* wavespectra
is imported from $VERIF_REPO.
"""
import hashlib
import importlib.util
import os
import subprocess
import sys
import sysconfig

VERIF = os.path.dirname(os.path.dirname(os.path.abspath(__file__)))
BUILD = os.path.join(VERIF, ".build")


def repo_root():
    return os.path.abspath(os.environ.get("VERIF_REPO", "/repo"))


def _sources(repo):
    d = os.path.join(repo, "wavespectra", "partition", "specpart")
    return [os.path.join(d, n) for n in ("specpart_wrap.c", "specpart.c", "specpart.h")]


def build_extension(repo=None, verbose=False):
    """Returns path of the compiled extension for the sources currently in `repo`."""
    import numpy

    repo = repo or repo_root()
    srcs = _sources(repo)
    h = hashlib.sha256()
    for s in srcs:
        with open(s, "rb") as f:
            h.update(s.rsplit("/", 1)[1].encode() + b"\0" + f.read() + b"\0")
    h.update(sys.version.encode() + numpy.__version__.encode())
    outdir = os.path.join(BUILD, h.hexdigest()[:24])
    so = os.path.join(outdir, "specpart" + sysconfig.get_config_var("EXT_SUFFIX"))
    if os.path.exists(so):
        return so
    os.makedirs(outdir, exist_ok=True)
    tmp = so + ".%d.tmp" % os.getpid()
    cmd = [
        "gcc", "-shared", "-fPIC", "-O2", "-fno-strict-aliasing", "-w",
        "-I" + sysconfig.get_paths()["include"],
        "-I" + numpy.get_include(),
        "-I" + os.path.dirname(srcs[0]),
        srcs[0], srcs[1], "-lm", "-o", tmp,
    ]
    r = subprocess.run(cmd, capture_output=True, text=True)
    if r.returncode != 0:
        raise RuntimeError("building specpart failed:\n" + r.stdout + r.stderr)
    os.replace(tmp, so)
    if verbose:
        print("built", so)
    return so


def repo_digest(repo=None):
    """sha256 over wavespectra/**/*.py, *.yml and the C sources of the tree under test."""
    repo = repo or repo_root()
    h = hashlib.sha256()
    top = os.path.join(repo, "wavespectra")
    for root, dirs, files in sorted(os.walk(top)):
        dirs.sort()
        for n in sorted(files):
            if n.endswith((".py", ".c", ".h", ".yml")):
                p = os.path.join(root, n)
                h.update(os.path.relpath(p, repo).encode() + b"\0")
                with open(p, "rb") as f:
                    h.update(f.read())
    return h.hexdigest()[:16]


def preload(repo=None):
    """Put `repo` first on sys.path and install the freshly built extension."""
    repo = repo or repo_root()
    so = build_extension(repo)
    if sys.path[0] != repo:
        sys.path.insert(0, repo)
    os.environ["WAVESPECTRA_VERIF"] = "1"
    name = "wavespectra.partition.specpart"
    spec = importlib.util.spec_from_file_location(name, so)
    mod = importlib.util.module_from_spec(spec)
    sys.modules[name] = mod          # must be registered before wavespectra imports it
    spec.loader.exec_module(mod)
    import wavespectra.partition as pkg  # noqa: triggers wavespectra/__init__ with our module in place

    pkg.specpart = mod
    import wavespectra

    assert os.path.abspath(wavespectra.__file__).startswith(repo + os.sep), wavespectra.__file__
    from wavespectra.partition import partition as _p

    assert _p.specpart is mod, "wavespectra did not pick up the rebuilt extension"
    return mod


if __name__ == "__main__":
    print(build_extension(verbose=True))
