"""Simulated raw file layer.

builtins.open / io.open are replaced, for paths under the run's scratch root only, by a function
that builds the normal Buffered/Text stack over SimRaw(io.FileIO).  Real bytes live in a per-run
directory under /dev/shm, so gzip, zipfile, scipy's netcdf, mmap, Path.is_file and glob keep
working natively; what is simulated is the raw layer's success or failure: EIO / ENOSPC on the
k-th raw write, short writes and short reads (legal), error on close.  The buffer size of the
Buffered layer is a per-run knob so that small files still have many crash points.
"""
import builtins
import errno
import io
import os
import shutil

_real_open = builtins.open
_real_io_open = io.open


class SimFS:
    def __init__(self, root, sim=None, bufsize=8192):
        self.root = os.path.realpath(root)
        os.makedirs(self.root, exist_ok=True)
        self.sim = sim
        self.bufsize = bufsize
        self.fault = None          # {"kind":..., "k": n}
        self.nwrite = 0            # raw write calls since arm()
        self.nread = 0
        self.nclose = 0
        self.fired = []            # (kind, where)
        self.short_reads = False
        self.installed = False
        self.log = []

    # -- paths ---------------------------------------------------------------------------
    def path(self, name):
        return os.path.join(self.root, name)

    def owns(self, file):
        if isinstance(file, int):
            return False
        try:
            p = os.path.realpath(os.fspath(file))
        except TypeError:
            return False
        if isinstance(p, bytes):
            p = p.decode()
        return p == self.root or p.startswith(self.root + os.sep)

    # -- faults --------------------------------------------------------------------------
    def arm(self, fault):
        self.fault = dict(fault) if fault else None
        self.nwrite = self.nread = self.nclose = 0
        self.fired = []

    def disarm(self):
        f, self.fault = self.fault, None
        return f

    def _fire(self, kind, where):
        self.fired.append((kind, where))
        if self.sim is not None:
            self.sim.count("fault." + kind)
            self.sim.event("io-fault", kind, where)

    # -- open ----------------------------------------------------------------------------
    def open(self, file, mode="r", buffering=-1, encoding=None, errors=None, newline=None, closefd=True, opener=None):
        if not self.owns(file):
            return _real_open(file, mode, buffering, encoding, errors, newline, closefd, opener)
        modes = set(mode)
        binary = "b" in modes
        text = not binary
        creating, reading, writing, appending, updating = ("x" in modes, "r" in modes, "w" in modes, "a" in modes, "+" in modes)
        if text and buffering == 0:
            raise ValueError("can't have unbuffered text I/O")
        rawmode = ("x" if creating else "") + ("r" if reading else "") + ("w" if writing else "") + ("a" if appending else "") + ("+" if updating else "")
        raw = SimRaw(self, os.fspath(file), rawmode)
        result = raw
        try:
            if buffering == 0:
                return result
            size = self.bufsize if buffering in (-1, 1) else buffering
            if updating:
                buf = io.BufferedRandom(raw, size)
            elif creating or writing or appending:
                buf = io.BufferedWriter(raw, size)
            else:
                buf = io.BufferedReader(raw, size)
            result = buf
            if binary:
                return result
            txt = io.TextIOWrapper(buf, encoding, errors, newline, buffering == 1)
            result = txt
            txt.mode = mode
            # the text layer batches 8 KiB before it hands anything down; shrink it with the same knob,
            # otherwise a small file reaches the raw layer only at close() and has a single crash point
            try:
                txt._CHUNK_SIZE = max(1, int(size))
            except (AttributeError, ValueError):
                pass
            return result
        except BaseException:
            result.close()
            raise

    def install(self):
        if self.installed:
            return
        builtins.open = self.open
        io.open = self.open
        self.installed = True

    def uninstall(self):
        if not self.installed:
            return
        builtins.open = _real_open
        io.open = _real_io_open
        self.installed = False

    def cleanup(self):
        self.uninstall()
        shutil.rmtree(self.root, ignore_errors=True)


class SimRaw(io.FileIO):
    def __init__(self, fs, path, mode):
        self._fs = fs
        self._path = path
        self._wrote = 0
        super().__init__(path, mode)

    # -- writes --------------------------------------------------------------------------
    def write(self, b):
        fs = self._fs
        fs.nwrite += 1
        f = fs.fault
        where = f"{os.path.basename(self._path)}#w{fs.nwrite}"
        if f:
            if f["kind"] in ("eio", "enospc") and fs.nwrite == f["k"]:
                fs._fire(f["kind"], where)
                raise OSError(errno.EIO if f["kind"] == "eio" else errno.ENOSPC, os.strerror(errno.EIO if f["kind"] == "eio" else errno.ENOSPC), self._path)
            if f["kind"] == "short" and len(b) > 1 and (fs.nwrite % max(1, f.get("every", 1)) == 0):
                fs._fire("short_write", where)
                return super().write(memoryview(b)[: max(1, len(b) // 2)])
            if f["kind"] == "torn" and fs.nwrite == f["k"] and len(b) > 1:
                # part of the block reaches the file, then the device fails
                super().write(memoryview(b)[: max(1, len(b) // 2)])
                fs._fire("torn_write", where)
                raise OSError(errno.EIO, os.strerror(errno.EIO), self._path)
        return super().write(b)

    def close(self):
        if self.closed:
            return
        fs = self._fs
        f = fs.fault
        writing = self.writable()
        super().close()
        if writing:
            fs.nclose += 1
            if f and f["kind"] == "close_err" and fs.nclose == max(1, f.get("k", 1)):
                fs._fire("close_err", os.path.basename(self._path))
                raise OSError(errno.EIO, "error on close", self._path)

    # -- reads ---------------------------------------------------------------------------
    def _short(self, n):
        fs = self._fs
        fs.nread += 1
        if fs.short_reads and n is not None and n > 1:
            fs.fired.append(("short_read", os.path.basename(self._path)))
            if fs.sim is not None:
                fs.sim.count("fault.short_read")
            return max(1, n // 2)
        return n

    def readinto(self, b):
        n = self._short(len(b))
        if n < len(b):
            return super().readinto(memoryview(b)[:n])
        return super().readinto(b)

    def read(self, size=-1):
        if size is None or size < 0:
            return self.readall()
        return super().read(self._short(size))

    def readall(self):
        if not self._fs.short_reads:
            self._fs.nread += 1
            return super().readall()
        chunks = []
        while True:
            c = super().read(self._short(4096))
            if not c:
                break
            chunks.append(c)
        return b"".join(chunks)
