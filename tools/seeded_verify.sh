#!/bin/bash
# Confirm a seeded change: demo passes on HEAD, fails with the patch, baseline suite still passes with it.
# usage: seeded_verify.sh <id>     (reads /verif/seeded/<id>/{patch.diff,demo.py})
id=$1
S=/verif/seeded/$id
W=/dev/shm/ws-seed-$id
git -C /repo worktree remove --force $W 2>/dev/null
git -C /repo worktree add -q --detach $W HEAD || exit 2
cd $W
mkdir -p _seeded && cp $S/demo.py _seeded/
/venv/bin/python setup.py build_ext --inplace >/dev/null 2>&1
out0=$(/venv/bin/python -W ignore _seeded/demo.py 2>&1); rc0=$?
git apply $S/patch.diff || { echo "$id: patch does not apply"; exit 2; }
/venv/bin/python setup.py build_ext --inplace >/dev/null 2>&1
out1=$(/venv/bin/python -W ignore _seeded/demo.py 2>&1); rc1=$?
base=$(/verif/tools/baseline.sh $W | head -1); rcb=$?
echo "$id: demo without patch rc=$rc0 ($(echo "$out0" | grep -m1 -E 'PASS|FAIL' | cut -c1-80)); with patch rc=$rc1 ($(echo "$out1" | grep -m1 -E 'PASS|FAIL' | cut -c1-80)); $base"
cd /; git -C /repo worktree remove --force $W
[ $rc0 -eq 0 ] && [ $rc1 -ne 0 ] && [ $rcb -eq 0 ]
