#!/venv/bin/python
"""Regenerate MANIFEST.json (claimed checks + not_applicable reasons taken from DESIGN.md section 7)."""
import json, re, subprocess, sys
design = open('/verif/DESIGN.md').read()
na = {m.group(1): m.group(2) for m in re.finditer(r"^\* \*\*(C\d\d)\*\* (.+)$", design, re.M)}
hook_commits = subprocess.run(["git", "-C", "/repo", "log", "--format=%H", "--grep=^verif hook"], capture_output=True, text=True).stdout.split()
CLAIMED = {
 "C07": dict(engine="schedsim", design="DESIGN.md §3",
   technique="deterministic simulation: real dask get_async driven by a seeded baton scheduler (pool= seam, simulated completion queue, sys.monitoring line/function-entry pre-emption inside wavespectra code, guarded C yield hook, warnings-callback seam for Python entered from inside native code; random-walk, PCT, lockstep+rendezvous+atomicity-probe strategies) with injected duplicate and concurrent-duplicate execution, stalls, two datasets in one compute, dask-backed data taken from the library's readers with chunks= (tasks read the file inside the simulated schedule; token seam keeps graph keys a function of the plan), nested computes inside tasks run inline; greybox probe of module-level state steers intensification; differential oracle against in-memory and synchronous results",
   text="Seeded exploration of (dataset, operation, chunking of every dimension, worker count, batching, schedule with pre-emption inside task bodies and fault injection): every simulated compute must succeed and equal the in-memory result (bit-exact or within a reassociation tolerance guarded by a conditioning test) and be bit-identical to the synchronous scheduler on the same graph. Sampling, not enumeration: a clean batch is evidence, not proof.",
   note="Trusted base: numpy/xarray/dask/scipy behave deterministically under PYTHONHASHSEED=0; pre-emption granularity is Python lines inside wavespectra files plus explicit yield points in specpart.c (only when the GIL is released); dependencies run atomically under the baton."),
 "C18": dict(engine="histsim", design="DESIGN.md §4.2",
   technique="deterministic simulation of seeded call/edit/native/reader/construct histories in a forked child, freshness oracle = same call on a freshly constructed object (same contents and memory layout) in a pristine forked reference process (bit-exact), Dataset-accessor vs efth-accessor agreement, exported files observed through their reader against a pristine process writing a fresh object, greybox probe of module-level and process-global state triggering a battery of extra observed calls; histories with short-lived working sets (churn) run in a newly started interpreter with ASLR off so that address reuse replays exactly",
   text="Seeded exploration of histories (accessor calls, failing calls, in-place edits, native watershed calls on same-product shapes, reader helpers) over persistent objects; after every value-returning step the value must equal, bit for bit, what a pristine process returns for the same call on a fresh object with the same present contents and memory layout.",
   note="Trusted base: fork() gives a pristine copy of a zygote that only imported the libraries; allocation history does not perturb numpy/scipy results (probed); memory layout of the fresh object is reproduced because layout independence is another property (C05)."),
 "C17": dict(engine="histsim", design="DESIGN.md §4.3",
   technique="deterministic simulation of seeded operation histories with injected I/O faults at the k-th raw write/close, exceptions half-way, and deferred (dask) work computed under a simulated schedule with duplicate execution; purity oracle = deep snapshots of every slot, source buffer, guard zone and argument object around every step",
   text="Seeded exploration: before every step a deep snapshot (whole backing buffers incl. guard zones of views, strides, dims order, coords, attrs, encodings, names, argument lists/dicts/arrays) is taken and compared after the step whether it returned, raised (argument errors, injected EIO/ENOSPC/torn write/error on close in writers) or ran deferred on a simulated thread pool.",
   note="Trusted base: snapshot covers numpy-backed buffers and dask graph identity (dask-backed values are covered through their numpy source buffers); the simulated raw file layer sits under the real Buffered/Text/gzip/netcdf3 stack."),
 "C11": dict(engine="fssim", design="DESIGN.md §5",
   technique="deterministic simulation of writer -> simulated file system -> reader histories (store semantics: a read returns the last acknowledged write) with seeded knobs (ntime chunking, gzip, buffer and text-chunk size, lon/lat as coords/vars/args), overwrites, stale siblings, the same dataset object edited in place and exported again, readers entered by path / xarray engine / file object / pathlib, injected raw-layer I/O faults (EIO, ENOSPC, torn and short writes, error on close, short reads) and simulator-decided finalizer timing of aborted writes; a fault-free writer refusal of an in-scope dataset is a violation; per-format resolution oracle",
   text="Seeded exploration of write/overwrite/read histories per format within each writer/reader pair's documented scope; a read of a path must return the dataset of the last acknowledged write to the format's numeric resolution, each spectrum at the position it was written from; injected faults may make a write raise but never be acknowledged with wrong content.",
   note="Trusted base: per-format tolerance derived from the format's printed precision; netCDF4/h5netcdf are not installed so wavespectra netCDF is exercised as NETCDF3 only; clock and RNG are pinned."),
}
import os
claimed = [p for p in sys.argv[1:]] or [p for p in CLAIMED if os.path.exists(f"/verif/engines/{CLAIMED[p]['engine']}.py")]
checks = []
for pid in sorted(claimed):
    c = CLAIMED[pid]
    checks.append({
        "property_id": pid, "engine": c["engine"],
        "quick_cmd": f"./check {pid} --tier quick", "thorough_cmd": f"./check {pid} --tier thorough",
        "evidence_file": f"/verif/evidence/{pid}.json", "replay_cmd_template": f"./check {pid} --replay {{path}}",
        "level_claimed": {"category": "exploration", "text": c["text"], "design_ref": c["design"]},
        "level_note": c["note"], "technique": c["technique"],
    })
not_app = [{"property_id": k, "reason": v} for k, v in sorted(na.items())]
for pid in sorted(CLAIMED):
    if pid not in claimed:
        not_app.append({"property_id": pid, "reason": "not claimed yet: its engine is still under construction (DESIGN.md §9); will be claimed once its check command exists"})
man = {
 "version": 1,
 "setup_cmd": "/venv/bin/python /verif/simkit/build.py",
 "hooks": {"guard": "WAVESPECTRA_VERIF",
   "enable": "checks compile specpart.c/specpart_wrap.c from the working tree into /verif/.build (content-hash cached), preload it as wavespectra.partition.specpart and set WAVESPECTRA_VERIF=1 in their own environment; _verif_set_hook refuses to work without it",
   "baseline_off_cmd": "env -u WAVESPECTRA_VERIF /verif/tools/baseline.sh /repo",
   "source_commits": hook_commits, "add_only": True},
 "engines": [
   {"name": "schedsim", "path": "engines/schedsim.py", "serves_properties": ["C07"], "kind_free_text": "seeded baton scheduler driving dask's real get_async; simkit/baton.py"},
   {"name": "histsim", "path": "engines/histsim.py", "serves_properties": ["C17", "C18"], "kind_free_text": "history machine with freshness (pristine reference process) and purity (deep snapshot) oracles; simulated file layer simkit/simfs.py"},
   {"name": "fssim", "path": "engines/fssim.py", "serves_properties": ["C11"], "kind_free_text": "writer -> simulated file system -> reader store model"},
 ],
 "checks": checks,
 "not_applicable": sorted(not_app, key=lambda x: x["property_id"]),
 "notes": "Technique: deterministic simulation with fault injection (DESIGN.md). ./check <id> [--tier quick|thorough] [--replay FILE]; ./check selftest determinism. Exit 0 = held on everything explored, 1 = unlisted VIOLATION, 2 = harness error. Known findings: known_findings.json.",
}
json.dump(man, open('/verif/MANIFEST.json', 'w'), indent=1)
print("claimed:", claimed)
